package main

import (
	"encoding/json"
	"flag"
	"fmt"
	"os"
	"path/filepath"
	"runtime"
	"sort"
	"strconv"
	"strings"
	"sync"
	"time"
)

type KnownFinding struct {
	Property string `json:"property"`
	Harness  string `json:"harness"` // harness name ("" = any of the property)
	Class    string `json:"class"`   // obligation class
	IDHas    string `json:"id_has"`  // substring of the obligation id
	PosHas   string `json:"pos_has"` // substring of the position (file / function)
	What     string `json:"what"`    // human description printed on the KNOWN-FINDING line
	Status   string `json:"status"`  // "known" or "fixed: <commit> ..."
	Witness  string `json:"witness"` // an input/history that fails (documentation)
}

var tracesValidated int

type verdict struct {
	spec    HarnessSpec
	res     *HarnessResult
	viol    []ObResult
	known   []string
	incon   []string
	passed  int
	skipped string
	covers  int
	ignored int
	// undecided: engine limits hit inside a symbolic-schedule window (reduces the explored bound only)
	undecided []string
}

var windowsNotRun int

func loadRegistry() ([]HarnessSpec, error) {
	b, err := os.ReadFile(filepath.Join(harnessDir, "registry.json"))
	if err != nil {
		return nil, err
	}
	var specs []HarnessSpec
	if err := json.Unmarshal(b, &specs); err != nil {
		return nil, err
	}
	return specs, nil
}

func loadKnown() []KnownFinding {
	b, err := os.ReadFile("/verif/known_findings.json")
	if err != nil {
		return nil
	}
	var k []KnownFinding
	json.Unmarshal(b, &k)
	return k
}

func matchKnown(k []KnownFinding, prop, harness string, o ObResult) *KnownFinding {
	for i := range k {
		f := &k[i]
		if f.Status != "known" || f.Property != prop {
			continue
		}
		if f.Harness != "" && !strings.Contains(harness, f.Harness) {
			continue
		}
		if f.Class != "" && f.Class != o.Class {
			continue
		}
		if f.IDHas != "" && !strings.Contains(o.ID, f.IDHas) {
			continue
		}
		if f.PosHas != "" && !strings.Contains(o.Pos, f.PosHas) {
			continue
		}
		return f
	}
	return nil
}

func checkMain(args []string) int {
	prop := args[0]
	fs := flag.NewFlagSet("check", flag.ExitOnError)
	tier := fs.String("tier", "quick", "quick|thorough")
	only := fs.String("only", "", "run only harnesses whose name contains this")
	verbose := fs.Bool("v", false, "verbose")
	jobs := fs.Int("j", 0, "parallel harnesses")
	noEvidence := fs.Bool("no-evidence", false, "do not write the evidence file")
	noReplay := fs.Bool("no-replay", false, "skip native replay of reachability witnesses")
	fs.Parse(args[1:])
	if t := os.Getenv("VERIF_TIER"); t != "" && !flagSet(fs, "tier") {
		*tier = t
	}
	seed := 0
	if s := os.Getenv("VERIF_SEED"); s != "" {
		seed, _ = strconv.Atoi(s)
	}
	t0 := time.Now()
	specs, err := loadRegistry()
	if err != nil {
		fmt.Println("INCONCLUSIVE registry:", err)
		return 2
	}
	var sel []HarnessSpec
	for _, s := range specs {
		if s.Property != prop {
			continue
		}
		if *only != "" && !strings.Contains(s.Name, *only) {
			continue
		}
		if *tier == "quick" && s.Tier == "thorough" {
			continue
		}
		if *tier == "thorough" && s.Tier == "quick-only" {
			continue
		}
		if *tier == "thorough" && s.TimeoutMs > 0 {
			s.TimeoutMs *= 4
		}
		sel = append(sel, s)
	}
	if len(sel) == 0 {
		fmt.Printf("INCONCLUSIVE no harness registered for %s\n", prop)
		return 2
	}
	sel = expandSpecs(sel, *tier)
	l, err := loadRepo()
	if err != nil {
		fmt.Println("INCONCLUSIVE", err)
		writeEvidence(prop, *tier, seed, nil, time.Since(t0), "harness does not build against the current tree: "+err.Error(), *noEvidence)
		return 2
	}
	known := loadKnown()
	nj := *jobs
	if nj <= 0 {
		nj = runtime.NumCPU() / 2
		if nj < 1 {
			nj = 1
		}
	}
	verdicts := make([]*verdict, len(sel))
	var wg sync.WaitGroup
	sem := make(chan struct{}, nj)
	for i, s := range sel {
		wg.Add(1)
		go func(i int, s HarnessSpec) {
			defer wg.Done()
			sem <- struct{}{}
			defer func() { <-sem }()
			r := runHarness(l, s, false, "")
			verdicts[i] = judge(prop, s, r, known)
		}(i, s)
	}
	wg.Wait()
	// second phase: symbolic-schedule windows over the baseline runs (thorough tier, or quick_windows).
	// Windows are expensive (the rest of the run continues from a schedule-symbolic state), so the phase has a
	// wall-clock budget: windows are taken in a fixed round-robin order over the scenarios (default policy
	// first) until the budget is spent; what was not run is reported as outside the explored bound.
	type winJob struct {
		spec HarnessSpec
		rank int
	}
	var jobsW []winJob
	for i, v := range verdicts {
		s := sel[i]
		if s.Window <= 0 || v.res.Err != "" || v.res.NSteps == 0 {
			continue
		}
		stride := s.Stride
		if stride <= 0 {
			stride = s.Window
		}
		var starts []int
		if *tier == "thorough" {
			if s.Policy != "" {
				continue // windows deviate from the default policy's run only
			}
			for a := 1; a < v.res.NSteps; a += stride {
				starts = append(starts, a)
			}
		} else {
			for _, a := range s.QuickWindows {
				if a < v.res.NSteps {
					starts = append(starts, a)
				}
			}
		}
		for k, a := range starts {
			w := s
			w.SymFrom, w.SymTo = a, a+s.Window
			w.Name = fmt.Sprintf("%s|win%d-%d", s.Name, a, a+s.Window)
			w.Window = 0
			w.isWindow = true
			if w.BudgetS == 0 {
				w.BudgetS = 300
			}
			jobsW = append(jobsW, winJob{w, k})
		}
	}
	sort.SliceStable(jobsW, func(i, j int) bool { return jobsW[i].rank < jobsW[j].rank })
	if len(jobsW) > 0 {
		budget := 1500
		if *tier != "thorough" {
			budget = 240
		}
		if b := os.Getenv("VERIF_WINDOW_BUDGET_S"); b != "" {
			budget, _ = strconv.Atoi(b)
		}
		deadline := time.Now().Add(time.Duration(budget) * time.Second)
		more := make([]*verdict, len(jobsW))
		for i, j := range jobsW {
			wg.Add(1)
			go func(i int, s HarnessSpec) {
				defer wg.Done()
				sem <- struct{}{}
				defer func() { <-sem }()
				if time.Now().After(deadline) {
					return
				}
				r := runHarness(l, s, false, "")
				more[i] = judge(prop, s, r, known)
			}(i, j.spec)
		}
		wg.Wait()
		for i, v := range more {
			if v == nil {
				windowsNotRun++
				continue
			}
			if len(v.viol) == 0 && len(v.incon) > 0 {
				// an undecided window reduces the explored bound; it is not a verdict about the property
				v.undecided = append(v.undecided, v.incon...)
				v.incon = nil
			}
			verdicts = append(verdicts, v)
			sel = append(sel, jobsW[i].spec)
		}
	}
	exit := 0
	knownPrinted := map[string]bool{}
	// native replay: up to 3 violations and 1 reachability witness per harness, one test binary per package
	var cases []*replayFile
	type caseRef struct {
		v     *verdict
		o     ObResult
		cover bool
		path  string
	}
	var refs []caseRef
	// at most maxViolReplays counterexamples are replayed per run (a hang costs 5 s each): distinct
	// obligations first; the rest are listed as further counterexamples of an already confirmed kind
	const maxViolReplays = 12
	seenKey := map[string]int{}
	nViolReplays, nViolSkipped, nViolBaseSkipped := 0, 0, 0
	for _, v := range verdicts {
		for i, o := range v.viol {
			if i >= 3 {
				break
			}
			// one replay per (obligation, scenario parameters): policies of one parameter set share it
			key := o.Class + "|" + o.ID + "|" + fmt.Sprint(v.spec.Params) + "|" + v.spec.Func
			if nViolReplays >= maxViolReplays || seenKey[key] >= 1 {
				nViolSkipped++
				if !v.spec.isWindow {
					nViolBaseSkipped++
				}
				continue
			}
			seenKey[key]++
			nViolReplays++
			path := writeReplay(prop, v, o)
			cases = append(cases, &replayFile{Property: prop, Harness: v.spec.Name, Func: v.spec.Func, Pkg: v.spec.Pkg, IntMode: v.spec.Int, Obligation: withParams(o, v.spec), Repeat: v.spec.Repeat})
			refs = append(refs, caseRef{v, o, false, path})
		}
		if !*noReplay && v.res.Err == "" && !v.spec.NoReplay {
			for _, o := range v.res.Obs {
				if o.Class == "cover" && o.Result == "sat" {
					cases = append(cases, &replayFile{Property: prop, Harness: v.spec.Name, Func: v.spec.Func, Pkg: v.spec.Pkg, IntMode: v.spec.Int, Obligation: withParams(o, v.spec)})
					refs = append(refs, caseRef{v, o, true, ""})
					break
				}
			}
		}
	}
	validated := 0
	var outcomes []replayOutcome
	if len(cases) > 0 {
		os.MkdirAll("/verif/.work", 0o755)
		wd, _ := os.MkdirTemp("/verif/.work", "rp")
		outcomes = replayBatch(cases, wd)
		os.RemoveAll(wd)
	}
	reproduced := map[*verdict]map[string]bool{}
	for i, r := range refs {
		oc := outcomes[i]
		if r.cover {
			if oc.Reproduced {
				validated++
			} else if oc.End == "ASSUME-FAILED" || oc.End == "" {
				r.v.incon = append(r.v.incon, fmt.Sprintf("witness %q could not be replayed natively (%s) %s", r.o.ID, oc.End, rawHead(oc.Raw)))
			} else {
				r.v.incon = append(r.v.incon, fmt.Sprintf("ENGINE-DIVERGENCE: witness %q sat in the encoding but the native run ended %s without covering it", r.o.ID, oc.End))
			}
			continue
		}
		if reproduced[r.v] == nil {
			reproduced[r.v] = map[string]bool{}
		}
		key := r.o.Class + "|" + r.o.ID
		if oc.Reproduced {
			validated++
			if !reproduced[r.v][key] {
				reproduced[r.v][key] = true
				fmt.Printf("  %s: [%s] %s at %s model=%v (reproduced natively: end=%s fails=%v)\n", r.v.spec.Name, r.o.Class, r.o.ID, r.o.Pos, r.o.Model, oc.End, oc.Fails)
				fmt.Printf("VIOLATION property=%s replay=%s\n", prop, r.path)
				exit = 1
			}
		} else if r.v.spec.isWindow {
			// a schedule found inside a symbolic window cannot be forced onto the Go runtime; what the perturbed
			// replays did not reproduce is recorded as an unconfirmed window (reduced bound), neither a
			// violation nor a pass of that window
			msg := fmt.Sprintf("UNCONFIRMED: [%s] %s sat in the encoding for a schedule chosen inside the window, not reproduced natively (end=%s); model=%v", r.o.Class, r.o.ID, oc.End, r.o.Model)
			r.v.undecided = append(r.v.undecided, msg)
			fmt.Printf("  %s: %s\n", r.v.spec.Name, msg)
		} else {
			r.v.incon = append(r.v.incon, fmt.Sprintf("SPURIOUS: [%s] %s sat in the encoding but not reproduced natively (end=%s fails=%v); model=%v", r.o.Class, r.o.ID, oc.End, oc.Fails, r.o.Model))
		}
	}
	if nViolSkipped > 0 {
		fmt.Printf("  (%d further counterexamples of the same kinds were not replayed)\n", nViolSkipped)
		if exit == 0 && nViolBaseSkipped > 0 {
			exit = 2
		}
	}
	nRan := 0
	for _, v := range verdicts {
		if v.skipped == "" {
			nRan++
		}
	}
	if len(droppedOverlay) > 0 {
		for f, msg := range droppedOverlay {
			fmt.Printf("REDUCED: harness file %s does not build against this tree and was left out (%s)\n", filepath.Base(f), msg)
		}
		if nRan == 0 {
			fmt.Printf("INCONCLUSIVE no harness of %s builds against this tree\n", prop)
			exit = 2
		}
	}
	for _, v := range verdicts {
		if v.skipped != "" {
			fmt.Printf("%s %-28s not run: %s\n", prop, v.spec.Name, v.skipped)
			continue
		}
		if *verbose {
			printResult(v.res, true)
		} else {
			fmt.Printf("%s %-28s %d obligations unsat, %d covers sat, %d violations, %d known, %d inconclusive (exec %d ms, solve %d ms)\n",
				prop, v.spec.Name, v.passed, v.covers, len(v.viol), len(v.known), len(v.incon), v.res.ExecMs, v.res.SolveMs)
		}
		for _, k := range v.known {
			if !knownPrinted[k] {
				knownPrinted[k] = true
				fmt.Printf("KNOWN-FINDING: property=%s %s\n", prop, k)
			}
		}
		for _, in := range v.incon {
			fmt.Printf("INCONCLUSIVE %s: %s\n", v.spec.Name, in)
			if exit == 0 {
				exit = 2
			}
		}
	}
	tracesValidated = validated
	writeEvidence(prop, *tier, seed, verdicts, time.Since(t0), "", *noEvidence)
	return exit
}

func withParams(o ObResult, s HarnessSpec) ObResult {
	if len(s.Params) == 0 {
		return o
	}
	m := map[string]string{}
	for k, v := range o.Model {
		m[k] = v
	}
	for k, v := range s.Params {
		if v < 0 {
			m[k] = fmt.Sprintf("(- %d)", -v)
		} else {
			m[k] = fmt.Sprintf("%d", v)
		}
	}
	o.Model = m
	return o
}

func flagSet(fs *flag.FlagSet, name string) bool {
	set := false
	fs.Visit(func(f *flag.Flag) {
		if f.Name == name {
			set = true
		}
	})
	return set
}

func judge(prop string, s HarnessSpec, r *HarnessResult, known []KnownFinding) *verdict {
	v := &verdict{spec: s, res: r}
	if r.Err != "" {
		if strings.HasPrefix(r.Err, "harness function not found") && len(droppedOverlay) > 0 {
			// the file defining this harness constructs internals that the tree under test no longer has in
			// that shape: the harness cannot run here (reduced coverage, not a verdict about the property)
			v.skipped = r.Err
			return v
		}
		v.incon = append(v.incon, "engine: "+r.Err)
		return v
	}
	coverSat := map[string]bool{}
	coverSeen := map[string]string{}
	for _, o := range r.Obs {
		if o.Class == "cover" {
			if _, ok := coverSeen[o.ID]; !ok || o.Result != "unsat" {
				if coverSeen[o.ID] != "sat" {
					coverSeen[o.ID] = o.Result
				}
			}
			if o.Result == "sat" {
				coverSat[o.ID] = true
				coverSeen[o.ID] = "sat"
			}
		}
	}
	for id, res := range coverSeen {
		if coverSat[id] {
			v.covers++
		} else {
			v.incon = append(v.incon, fmt.Sprintf("reachability witness %q is %s on every path that reaches it (vacuous harness?)", id, res))
		}
	}
	relevant := func(o ObResult) bool {
		if len(s.Classes) > 0 {
			ok := false
			for _, c := range s.Classes {
				if c == o.Class {
					ok = true
				}
			}
			if !ok {
				return false
			}
		}
		if o.Class == "assert" && len(s.AssertIDs) > 0 {
			for _, sub := range s.AssertIDs {
				if strings.Contains(o.ID, sub) {
					return true
				}
			}
			return false
		}
		return true
	}
	for _, o := range r.Obs {
		if o.Class != "cover" && o.Class != "batch" && !relevant(o) {
			v.ignored++
			continue
		}
		switch {
		case o.Class == "cover":
		case o.Class == "batch":
			if o.Result == "unsat" {
				v.passed += r.NBatched
			}
		case o.Result == "unsat":
			v.passed++
		case o.Result == "sat":
			if k := matchKnown(known, prop, s.Name, o); k != nil {
				v.known = append(v.known, k.What)
			} else {
				v.viol = append(v.viol, o)
			}
		default:
			v.incon = append(v.incon, fmt.Sprintf("solver gave no verdict on [%s] %s within the time limit", o.Class, o.ID))
		}
	}
	return v
}

func writeReplay(prop string, v *verdict, o ObResult) string {
	dir := "/verif/.work/replay"
	os.MkdirAll(dir, 0o755)
	name := fmt.Sprintf("%s_%s_%d.json", prop, v.spec.Name, time.Now().UnixNano()%1000000)
	path := filepath.Join(dir, name)
	b, _ := json.MarshalIndent(map[string]interface{}{
		"property": prop, "harness": v.spec.Name, "func": v.spec.Func, "pkg": v.spec.Pkg,
		"obligation": withParams(o, v.spec), "int_mode": v.spec.Int, "repeat": v.spec.Repeat, "policy": v.spec.Policy, "sym_from": v.spec.SymFrom, "sym_to": v.spec.SymTo,
	}, "", " ")
	os.WriteFile(path, b, 0o644)
	return path
}

func writeEvidence(prop, tier string, seed int, vs []*verdict, wall time.Duration, note string, skip bool) {
	if skip {
		return
	}
	os.MkdirAll("/verif/evidence", 0o755)
	type sample struct {
		Harness string `json:"harness"`
		Class   string `json:"class"`
		ID      string `json:"obligation"`
		Result  string `json:"verdict"`
		Solver  string `json:"solver,omitempty"`
		Ms      int64  `json:"ms"`
		Pos     string `json:"pos,omitempty"`
	}
	var samples []sample
	states, trans, nobl, ndis, ntriv, viol, traces := 0, 0, 0, 0, 0, 0, 0
	funcs := map[string]bool{}
	stubs := map[string]bool{}
	assum := map[string]bool{}
	var bounds []map[string]interface{}
	var solveMs, execMs int64
	var incon []string
	var undecided []string
	var notRun []string
	for _, v := range vs {
		if v.skipped != "" {
			notRun = append(notRun, v.spec.Name+": "+v.skipped)
		}
	}
	for _, v := range vs {
		r := v.res
		states += r.NBlocks + r.NSteps
		trans += r.NInstr + r.NCands
		ntriv += r.NTrivial
		solveMs += r.SolveMs
		execMs += r.ExecMs
		for _, f := range r.Funcs {
			funcs[f] = true
		}
		for _, f := range r.Stubs {
			stubs[f] = true
		}
		for _, f := range r.Assumptions {
			assum[f] = true
		}
		bounds = append(bounds, map[string]interface{}{"harness": v.spec.Name, "facet": v.spec.Facet, "arithmetic": map[bool]string{true: "Int/Real (IEEE standard model)", false: "64-bit bit-vectors"}[v.spec.Int],
			"loop_unwind": orDefault(v.spec.Unwind, 16), "max_moves": orDefault(v.spec.Steps, 64), "moves_used": r.NSteps, "schedule": scheduleText(v.spec),
			"inputs": r.Inputs})
		for _, o := range r.Obs {
			if o.Class == "batch" {
				nobl += r.NBatched
				if o.Result == "unsat" {
					ndis += r.NBatched
				}
			} else {
				nobl++
				if (o.Class == "cover" && o.Result == "sat") || (o.Class != "cover" && o.Result == "unsat") {
					ndis++
				}
			}
			if o.Class == "cover" && o.Result == "sat" {
				traces++
			}
			if len(samples) < 400 {
				samples = append(samples, sample{v.spec.Name, o.Class, o.ID, o.Result, o.Solver, o.Ms, o.Pos})
			}
		}
		viol += len(v.viol)
		incon = append(incon, v.incon...)
		for _, u := range v.undecided {
			undecided = append(undecided, v.spec.Name+": "+u)
		}
	}
	if states == 0 {
		states = 1
	}
	if trans == 0 {
		trans = 1
	}
	if len(samples) == 0 {
		samples = append(samples, sample{Harness: "none", Class: "none", ID: note, Result: "inconclusive"})
	}
	ev := map[string]interface{}{
		"property_id": prop, "tier": tier, "seed": seed, "level": "model_checking", "wall_s": wall.Seconds(), "violations": viol,
		"coverage": map[string]interface{}{
			"states":                        states,
			"transitions":                   trans,
			"traces_validated_against_impl": tracesValidated,
			"samples":                       samples,
			"obligations":                   nobl,
			"discharged":                    ndis,
			"discharged_by_simplifier":      ntriv,
			"reachability_witnesses_sat":    traces,
			"functions_encoded":             keys(funcs),
			"library_contracts":             keys(stubs),
			"bounds":                        bounds,
			"solver_ms":                     solveMs,
			"symbolic_execution_ms":         execMs,
			"inconclusive":                  incon,
			"windows_undecided":             undecided,
			"windows_not_run_budget":        windowsNotRun,
			"harnesses_not_built":           notRun,
			"explanation":                   "states = basic-block instances + scheduler steps encoded; transitions = SSA instructions + candidate moves encoded; every obligation is an SMT query (unsat = holds for all values within the stated bounds); reachability witnesses must be sat",
			"exhaustive":                    false,
		},
		"assumptions": keys(assum),
	}
	if note != "" {
		ev["coverage"].(map[string]interface{})["note"] = note
	}
	b, _ := json.MarshalIndent(ev, "", " ")
	os.WriteFile(filepath.Join("/verif/evidence", prop+".json"), b, 0o644)
}

func scheduleText(s HarnessSpec) string {
	pol := s.Policy
	if pol == "" {
		pol = "default"
	}
	switch {
	case s.SymFrom < s.SymTo:
		return fmt.Sprintf("moves [%d,%d) chosen by one solver variable each (any enabled move); every other move by the fair deterministic policy %q", s.SymFrom, s.SymTo, pol)
	case s.Symbolic:
		return "solver variable per move"
	case strings.HasPrefix(s.Func, "vs"):
		return fmt.Sprintf("fair deterministic policy %q (one schedule); schedules outside the policies and windows are outside the claim", pol)
	}
	return "first enabled move (harness is schedule-independent by construction)"
}

func orDefault(v, d int) int {
	if v == 0 {
		return d
	}
	return v
}

func keys(m map[string]bool) []string {
	out := make([]string, 0, len(m))
	for k := range m {
		out = append(out, k)
	}
	sort.Strings(out)
	return out
}

// expandSpecs turns one registry entry into its family of runs: every combination of the expand parameters
// times every baseline policy (windows are added after the baselines have run).
func expandSpecs(in []HarnessSpec, tier string) []HarnessSpec {
	var out []HarnessSpec
	for _, s := range in {
		keys := make([]string, 0, len(s.Expand))
		for k := range s.Expand {
			keys = append(keys, k)
		}
		sort.Strings(keys)
		combos := []map[string]int64{{}}
		for _, k := range keys {
			var next []map[string]int64
			for _, c := range combos {
				for _, v := range s.Expand[k] {
					n := map[string]int64{}
					for kk, vv := range c {
						n[kk] = vv
					}
					n[k] = v
					next = append(next, n)
				}
			}
			combos = next
		}
		pols := s.Policies
		if len(pols) == 0 {
			pols = []string{s.Policy}
		}
		if tier == "quick" && len(s.QuickPolicies) > 0 {
			pols = s.QuickPolicies
		}
		for _, c := range combos {
			for _, pol := range pols {
				n := s
				n.Params = map[string]int64{}
				for k, v := range s.Params {
					n.Params[k] = v
				}
				var parts []string
				for _, k := range keys {
					n.Params[k] = c[k]
					parts = append(parts, fmt.Sprintf("%s=%d", k, c[k]))
				}
				n.Policy = pol
				n.Expand = nil
				n.Policies = nil
				if len(parts) > 0 || pol != "" {
					n.Name = s.Name + "[" + strings.Join(parts, ",")
					if pol != "" {
						n.Name += ";" + pol
					}
					n.Name += "]"
				}
				out = append(out, n)
			}
		}
	}
	return out
}

// rawHead: the first lines of a native replay's output that explain a build or start-up failure
func rawHead(raw string) string {
	var keep []string
	for _, l := range strings.Split(raw, "\n") {
		l = strings.TrimSpace(l)
		if l == "" || strings.HasPrefix(l, "VREPLAY-CASE") || strings.HasPrefix(l, "=== RUN") {
			continue
		}
		keep = append(keep, l)
		if len(keep) >= 4 {
			break
		}
	}
	return strings.Join(keep, " | ")
}
