package main

func checkMain(args []string) int { return 2 }
