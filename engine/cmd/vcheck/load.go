package main

import (
	"fmt"
	"os"
	"path/filepath"
	"strings"

	"golang.org/x/tools/go/packages"
	"golang.org/x/tools/go/ssa"
	"golang.org/x/tools/go/ssa/ssautil"
)

// repoDir is the tree under test: /repo, or a scratch worktree of it when VCHECK_REPO is set (development
// only: the registered commands never set it).
var repoDir = func() string {
	if d := os.Getenv("VCHECK_REPO"); d != "" {
		return d
	}
	return "/repo"
}()

const repoMod = "github.com/vbauerster/mpb/v8"

var harnessDir = func() string {
	if d := os.Getenv("VCHECK_HARNESS"); d != "" {
		return d // development only
	}
	return "/verif/harness"
}()

// overlayFiles maps harness sources into virtual files of the repository's packages.
// harness/<pkgdir>/<name>.go -> /repo/<pkgdir>/zz_verif_<name>.go  (pkgdir "root" = repository root)
// droppedOverlay: harness files that do not type-check against the tree under test (an internal type or
// function they construct directly was refactored away). They are left out of the overlay - of the symbolic
// run and of the native replays alike - and the harnesses defined in them are reported as not runnable.
var droppedOverlay = map[string]string{}

func overlayFiles() (map[string][]byte, error) {
	all, err := overlayFilesAll()
	if err != nil {
		return nil, err
	}
	for f := range droppedOverlay {
		delete(all, f)
	}
	return all, nil
}

func overlayFilesAll() (map[string][]byte, error) {
	ov := map[string][]byte{}
	ents, err := os.ReadDir(harnessDir)
	if err != nil {
		return nil, err
	}
	for _, e := range ents {
		if !e.IsDir() {
			continue
		}
		sub := e.Name()
		files, _ := filepath.Glob(filepath.Join(harnessDir, sub, "*.go"))
		if sub != "root" && len(files) > 0 {
			// every harness package gets the vocabulary of the root package under its own package clause
			if vb, err := os.ReadFile(filepath.Join(harnessDir, "root", "vocab.go")); err == nil {
				txt := strings.Replace(string(vb), "package mpb", "package "+filepath.Base(sub), 1)
				ov[filepath.Join(repoDir, sub, "zz_verif_vocab.go")] = []byte(txt)
			}
		}
		for _, f := range files {
			if strings.HasSuffix(f, "_test.go") {
				continue
			}
			b, err := os.ReadFile(f)
			if err != nil {
				return nil, err
			}
			dst := repoDir
			if sub != "root" {
				dst = filepath.Join(repoDir, sub)
			}
			ov[filepath.Join(dst, "zz_verif_"+filepath.Base(f))] = b
		}
	}
	return ov, nil
}

type loaded struct {
	prog *ssa.Program
	pkgs []*ssa.Package
}

func loadRepo() (*loaded, error) {
	var pkgs []*packages.Package
	// a harness file that no longer type-checks is dropped and the load repeated (at most a few rounds: a
	// dropped file may define helpers of another one); files of the shared vocabulary are never dropped
	for round := 0; ; round++ {
		ov, err := overlayFiles()
		if err != nil {
			return nil, err
		}
		cfg := &packages.Config{Mode: packages.LoadAllSyntax, Dir: repoDir, Overlay: ov,
			Env: append(os.Environ(), "GOFLAGS=-mod=mod", "GOPROXY=off", "GOSUMDB=off", "GOTOOLCHAIN=local")}
		pkgs, err = packages.Load(cfg, "./...")
		if err != nil {
			return nil, err
		}
		var errs []string
		bad := map[string]string{}
		onlyHarness := true
		packages.Visit(pkgs, nil, func(p *packages.Package) {
			for _, e := range p.Errors {
				errs = append(errs, e.Error())
				file := e.Pos
				if i := strings.Index(file, ":"); i >= 0 {
					file = file[:i]
				}
				base := filepath.Base(file)
				if _, isOv := ov[file]; isOv && base != "zz_verif_vocab.go" && base != "zz_verif_models.go" && base != "zz_verif_shared.go" {
					if _, seen := bad[file]; !seen {
						bad[file] = e.Msg
					}
				} else {
					onlyHarness = false
				}
			}
		})
		if len(errs) == 0 {
			break
		}
		if !onlyHarness || len(bad) == 0 || round >= 6 {
			return nil, fmt.Errorf("harness-build: %s", strings.Join(errs, "; "))
		}
		for f, msg := range bad {
			droppedOverlay[f] = msg
		}
	}
	prog, spkgs := ssautil.AllPackages(pkgs, ssa.InstantiateGenerics)
	prog.Build()
	var out []*ssa.Package
	for _, p := range spkgs {
		if p != nil {
			out = append(out, p)
		}
	}
	return &loaded{prog, out}, nil
}

func (l *loaded) findFunc(pkgSuffix, name string) *ssa.Function {
	for _, p := range l.pkgs {
		path := p.Pkg.Path()
		want := repoMod
		if pkgSuffix != "" && pkgSuffix != "root" {
			want = repoMod + "/" + pkgSuffix
		}
		if path == want {
			if f := p.Func(name); f != nil {
				return f
			}
		}
	}
	return nil
}
