package main

import (
	"fmt"
	"os"
	"path/filepath"
	"strings"

	"golang.org/x/tools/go/packages"
	"golang.org/x/tools/go/ssa"
	"golang.org/x/tools/go/ssa/ssautil"
)

// repoDir is the tree under test: /repo, or a scratch worktree of it when VCHECK_REPO is set (development
// only: the registered commands never set it).
var repoDir = func() string {
	if d := os.Getenv("VCHECK_REPO"); d != "" {
		return d
	}
	return "/repo"
}()

const repoMod = "github.com/vbauerster/mpb/v8"

var harnessDir = func() string {
	if d := os.Getenv("VCHECK_HARNESS"); d != "" {
		return d // development only
	}
	return "/verif/harness"
}()

// overlayFiles maps harness sources into virtual files of the repository's packages.
// harness/<pkgdir>/<name>.go -> /repo/<pkgdir>/zz_verif_<name>.go  (pkgdir "root" = repository root)
func overlayFiles() (map[string][]byte, error) {
	ov := map[string][]byte{}
	ents, err := os.ReadDir(harnessDir)
	if err != nil {
		return nil, err
	}
	for _, e := range ents {
		if !e.IsDir() {
			continue
		}
		sub := e.Name()
		files, _ := filepath.Glob(filepath.Join(harnessDir, sub, "*.go"))
		if sub != "root" && len(files) > 0 {
			// every harness package gets the vocabulary of the root package under its own package clause
			if vb, err := os.ReadFile(filepath.Join(harnessDir, "root", "vocab.go")); err == nil {
				txt := strings.Replace(string(vb), "package mpb", "package "+filepath.Base(sub), 1)
				ov[filepath.Join(repoDir, sub, "zz_verif_vocab.go")] = []byte(txt)
			}
		}
		for _, f := range files {
			if strings.HasSuffix(f, "_test.go") {
				continue
			}
			b, err := os.ReadFile(f)
			if err != nil {
				return nil, err
			}
			dst := repoDir
			if sub != "root" {
				dst = filepath.Join(repoDir, sub)
			}
			ov[filepath.Join(dst, "zz_verif_"+filepath.Base(f))] = b
		}
	}
	return ov, nil
}

type loaded struct {
	prog *ssa.Program
	pkgs []*ssa.Package
}

func loadRepo() (*loaded, error) {
	ov, err := overlayFiles()
	if err != nil {
		return nil, err
	}
	cfg := &packages.Config{Mode: packages.LoadAllSyntax, Dir: repoDir, Overlay: ov,
		Env: append(os.Environ(), "GOFLAGS=-mod=mod", "GOPROXY=off", "GOSUMDB=off", "GOTOOLCHAIN=local")}
	pkgs, err := packages.Load(cfg, "./...")
	if err != nil {
		return nil, err
	}
	var errs []string
	packages.Visit(pkgs, nil, func(p *packages.Package) {
		for _, e := range p.Errors {
			errs = append(errs, e.Error())
		}
	})
	if len(errs) > 0 {
		return nil, fmt.Errorf("harness-build: %s", strings.Join(errs, "; "))
	}
	prog, spkgs := ssautil.AllPackages(pkgs, ssa.InstantiateGenerics)
	prog.Build()
	var out []*ssa.Package
	for _, p := range spkgs {
		if p != nil {
			out = append(out, p)
		}
	}
	return &loaded{prog, out}, nil
}

func (l *loaded) findFunc(pkgSuffix, name string) *ssa.Function {
	for _, p := range l.pkgs {
		path := p.Pkg.Path()
		want := repoMod
		if pkgSuffix != "" && pkgSuffix != "root" {
			want = repoMod + "/" + pkgSuffix
		}
		if path == want {
			if f := p.Func(name); f != nil {
				return f
			}
		}
	}
	return nil
}
