package main

import (
	"flag"
	"fmt"
	"os"
	"runtime/pprof"
	"strings"
)

func main() {
	if len(os.Args) < 2 {
		fmt.Println("usage: vcheck run <Func> [flags] | vcheck <Cxx> --tier quick|thorough")
		os.Exit(2)
	}
	if os.Args[1] == "run" {
		fs := flag.NewFlagSet("run", flag.ExitOnError)
		intMode := fs.Bool("int", false, "int/real arithmetic mode")
		trace := fs.Bool("trace", false, "trace instructions")
		pkg := fs.String("pkg", "", "package dir of the harness")
		unwind := fs.Int("unwind", 0, "loop bound")
		steps := fs.Int("steps", 0, "move bound")
		symb := fs.Bool("symbolic", false, "symbolic schedule")
		to := fs.Int("timeout", 60000, "per query ms")
		solver := fs.String("solver", "", "comma list of z3|z3-new|cvc5 (fallback chain)")
		dump := fs.String("dump", "", "dump smt2 into dir")
		noprune := fs.Bool("noprune", false, "no feasibility pruning")
		stub := fs.String("stub", "", "from=to[,from=to] contract stubs")
		params := fs.String("param", "", "k=v[,k=v] concrete scenario parameters")
		symFrom := fs.Int("from", 0, "symbolic window start")
		symTo := fs.Int("to", 0, "symbolic window end")
		policy := fs.String("policy", "", "baseline policy")
		prof := fs.String("cpuprofile", "", "write cpu profile")
		race := fs.Bool("race", false, "happens-before race detection")
		fs.Parse(os.Args[3:])
		if *prof != "" {
			f, _ := os.Create(*prof)
			pprof.StartCPUProfile(f)
			defer pprof.StopCPUProfile()
		}
		l, err := loadRepo()
		if err != nil {
			fmt.Println("INCONCLUSIVE", err)
			os.Exit(2)
		}
		for f, msg := range droppedOverlay {
			fmt.Printf("REDUCED: harness file %s does not build against this tree and was left out (%s)\n", f, msg)
		}
		spec := HarnessSpec{Name: os.Args[2], Func: os.Args[2], Pkg: *pkg, Int: *intMode, Unwind: *unwind, Steps: *steps, Symbolic: *symb, TimeoutMs: *to, Solver: *solver, NoPrune: *noprune}
		spec.SymFrom, spec.SymTo, spec.Policy = *symFrom, *symTo, *policy
		spec.Race = *race
		if *params != "" {
			spec.Params = map[string]int64{}
			for _, kv := range strings.Split(*params, ",") {
				p := strings.SplitN(kv, "=", 2)
				var v int64
				fmt.Sscan(p[1], &v)
				spec.Params[p[0]] = v
			}
		}
		if *stub != "" {
			spec.Stubs = map[string]string{}
			for _, kv := range strings.Split(*stub, ",") {
				p := strings.SplitN(kv, "=", 2)
				spec.Stubs[p[0]] = p[1]
			}
		}
		r := runHarness(l, spec, *trace, *dump)
		printResult(r, true)
		return
	}
	if os.Args[1] == "replay" {
		os.Exit(replayMain(os.Args[2:]))
	}
	os.Exit(checkMain(os.Args[1:]))
}

func printResult(r *HarnessResult, verbose bool) {
	fmt.Printf("== %s: exec %d ms, solve %d ms, %d instrs, %d blocks, %d objects, %d terms, %d steps/%d cands, %d assumes, %d trivial\n",
		r.Spec.Name, r.ExecMs, r.SolveMs, r.NInstr, r.NBlocks, r.NObjects, r.NTerms, r.NSteps, r.NCands, r.NAssumes, r.NTrivial)
	if r.Err != "" {
		fmt.Println("   ERROR:", r.Err)
	}
	for _, o := range r.Obs {
		fmt.Printf("   [%s] %-7s %s  (%d ms %s) %s\n", o.Class, o.Result, o.ID, o.Ms, o.Solver, o.Pos)
		if verbose && o.Result == "sat" && o.Class != "cover" {
			fmt.Printf("        model: %v\n", o.Model)
		}
	}
	if verbose {
		for _, st := range r.StepLog {
			fmt.Printf("   step %d: %v\n", st.Step, st.Cands)
		}
		for _, n := range r.Notes {
			fmt.Println("   note:", n)
		}
	}
}
