package main

import (
	"context"
	"encoding/json"
	"fmt"
	"math/big"
	"os"
	"os/exec"
	"path/filepath"
	"sort"
	"strings"
	"time"
)

type replayFile struct {
	Property   string   `json:"property"`
	Harness    string   `json:"harness"`
	Func       string   `json:"func"`
	Pkg        string   `json:"pkg"`
	IntMode    bool     `json:"int_mode"`
	Obligation ObResult `json:"obligation"`
	Repeat     int      `json:"repeat"`
}

// parseModelValue converts an SMT value to int64 (two's complement for bit-vectors).
func parseModelValue(v string) (int64, bool) {
	v = strings.TrimSpace(v)
	switch v {
	case "true":
		return 1, true
	case "false":
		return 0, true
	}
	if strings.HasPrefix(v, "#x") {
		n := new(big.Int)
		if _, ok := n.SetString(v[2:], 16); ok {
			return int64(n.Uint64()), true
		}
	}
	if strings.HasPrefix(v, "#b") {
		n := new(big.Int)
		if _, ok := n.SetString(v[2:], 2); ok {
			return int64(n.Uint64()), true
		}
	}
	neg := false
	if strings.HasPrefix(v, "(-") {
		neg = true
		v = strings.TrimSuffix(strings.TrimSpace(v[2:]), ")")
		v = strings.TrimSpace(v)
	}
	n := new(big.Int)
	if _, ok := n.SetString(v, 10); ok {
		if neg {
			n.Neg(n)
		}
		if n.IsInt64() {
			return n.Int64(), true
		}
		if n.IsUint64() {
			return int64(n.Uint64()), true
		}
		return 0, false
	}
	return 0, false
}

type replayOutcome struct {
	Reproduced bool
	End        string
	Fails      []string
	Covers     []string
	Raw        string
}

// replayBatch runs several (harness, model) cases natively in one test binary per package.
func replayBatch(cases []*replayFile, workDir string) []replayOutcome {
	out := make([]replayOutcome, len(cases))
	byPkg := map[string][]int{}
	for i, c := range cases {
		byPkg[c.Pkg] = append(byPkg[c.Pkg], i)
	}
	for pkg, idxs := range byPkg {
		text := runReplayPkg(pkg, cases, idxs, filepath.Join(workDir, "p_"+strings.ReplaceAll(pkg, "/", "_")))
		for _, i := range idxs {
			o := &out[i]
			o.Raw = text
			pre := fmt.Sprintf("VREPLAY-CASE %d ", i)
			for _, line := range strings.Split(text, "\n") {
				line = strings.TrimSpace(line)
				if !strings.HasPrefix(line, pre) {
					continue
				}
				rest := strings.TrimPrefix(line, pre)
				switch {
				case strings.HasPrefix(rest, "END "):
					o.End = strings.TrimPrefix(rest, "END ")
				case strings.HasPrefix(rest, "FAIL "):
					o.Fails = append(o.Fails, strings.TrimPrefix(rest, "FAIL "))
				case strings.HasPrefix(rest, "COVER "):
					o.Covers = append(o.Covers, strings.TrimPrefix(rest, "COVER "))
				}
			}
			ob := cases[i].Obligation
			has := func(l []string, x string) bool {
				for _, y := range l {
					if y == x {
						return true
					}
				}
				return false
			}
			switch ob.Class {
			case "assert":
				o.Reproduced = has(o.Fails, ob.ID)
			case "cover":
				o.Reproduced = has(o.Covers, ob.ID)
			case "panic":
				o.Reproduced = strings.HasPrefix(o.End, "PANIC") || (o.End == "" && (strings.Contains(text, "panic:") || strings.Contains(text, "fatal error:")))
			case "deadlock", "unwind":
				o.Reproduced = o.End == "HANG" || strings.Contains(text, "all goroutines are asleep")
			default:
				o.Reproduced = len(o.Fails) > 0 || strings.HasPrefix(o.End, "PANIC")
			}
		}
	}
	return out
}

func runReplayPkg(pkg string, cases []*replayFile, idxs []int, workDir string) string {
	os.MkdirAll(workDir, 0o755)
	pkgDir := repoDir
	pkgName := "mpb"
	if pkg != "" && pkg != "root" {
		pkgDir = filepath.Join(repoDir, pkg)
		pkgName = filepath.Base(pkg)
	}
	var sb strings.Builder
	fmt.Fprintf(&sb, "package %s\n\nimport (\n\t\"fmt\"\n\t\"os\"\n\t\"testing\"\n\t\"time\"\n)\n\n", pkgName)
	sb.WriteString(`func vReplayCase(i int, model map[string]int64, f func(), repeat int) {
	for r := 0; r < repeat; r++ {
		if vReplayOnce(i, model, f, r == repeat-1) {
			return
		}
	}
}

// vReplayOnce runs the harness once; it reports (and returns true) when something went wrong or on the last try.
func vReplayOnce(i int, model map[string]int64, f func(), last bool) bool {
	vModel = model
	vFailures = nil
	vCovered = map[string]bool{}
	vGhost = map[string][]int64{}
	vGhostF = map[string][]float64{}
	done := make(chan string, 1)
	go func() {
		defer func() {
			if r := recover(); r != nil {
				if _, ok := r.(vAssumeFailed); ok {
					done <- "ASSUME-FAILED"
					return
				}
				done <- fmt.Sprintf("PANIC %v", r)
				return
			}
		}()
		f()
		done <- "RETURNED"
	}()
	end := ""
	select {
	case r := <-done:
		end = r
	case <-time.After(5 * time.Second):
		end = "HANG"
	}
	bad := end != "RETURNED" || len(vFailures) > 0
	if !bad && !last {
		return false
	}
	fmt.Fprintf(os.Stderr, "VREPLAY-CASE %d END %s\n", i, end)
	for _, f := range vFailures {
		fmt.Fprintf(os.Stderr, "VREPLAY-CASE %d FAIL %s\n", i, f)
	}
	for c := range vCovered {
		fmt.Fprintf(os.Stderr, "VREPLAY-CASE %d COVER %s\n", i, c)
	}
	return true
}

func TestVReplay(t *testing.T) {
`)
	for _, i := range idxs {
		rf := cases[i]
		names := make([]string, 0, len(rf.Obligation.Model))
		for k := range rf.Obligation.Model {
			names = append(names, k)
		}
		sort.Strings(names)
		fmt.Fprintf(&sb, "\tvReplayCase(%d, map[string]int64{", i)
		for _, k := range names {
			if strings.HasPrefix(k, "sched") {
				continue
			}
			if n, ok := parseModelValue(rf.Obligation.Model[k]); ok {
				fmt.Fprintf(&sb, "%q: %d, ", k, n)
			}
		}
		rep := rf.Repeat
		if rep < 1 || rf.Obligation.Class == "cover" {
			rep = 1
		}
		fmt.Fprintf(&sb, "}, %s, %d)\n", rf.Func, rep)
	}
	sb.WriteString("}\n")
	testFile := filepath.Join(workDir, "zz_verif_replay_test.go")
	os.WriteFile(testFile, []byte(sb.String()), 0o644)
	ov, err := overlayFiles()
	if err != nil {
		return err.Error()
	}
	repl := map[string]string{}
	k := 0
	for virt, content := range ov {
		real := filepath.Join(workDir, fmt.Sprintf("ov%d_%s", k, filepath.Base(virt)))
		k++
		os.WriteFile(real, content, 0o644)
		repl[virt] = real
	}
	repl[filepath.Join(pkgDir, "zz_verif_replay_test.go")] = testFile
	ovb, _ := json.Marshal(map[string]interface{}{"Replace": repl})
	ovFile := filepath.Join(workDir, "overlay.json")
	os.WriteFile(ovFile, ovb, 0o644)
	ctx, cancel := context.WithTimeout(context.Background(), 300*time.Second)
	defer cancel()
	rel := "."
	if pkg != "" && pkg != "root" {
		rel = "./" + pkg
	}
	cmd := exec.CommandContext(ctx, "go", "test", "-v", "-vet=off", "-count=1", "-run", "^TestVReplay$", "-overlay", ovFile, rel)
	cmd.Dir = repoDir
	cmd.Env = append(os.Environ(), "GOFLAGS=-mod=mod", "GOPROXY=off", "GOSUMDB=off", "GOTOOLCHAIN=local")
	outb, _ := cmd.CombinedOutput()
	return string(outb)
}

func replayMain(args []string) int {
	if len(args) < 1 {
		fmt.Println("usage: vcheck replay <file.json>")
		return 2
	}
	b, err := os.ReadFile(args[0])
	if err != nil {
		fmt.Println(err)
		return 2
	}
	var rf replayFile
	if err := json.Unmarshal(b, &rf); err != nil {
		fmt.Println(err)
		return 2
	}
	wd, _ := os.MkdirTemp("/verif/.work", "rp")
	defer os.RemoveAll(wd)
	res := replayBatch([]*replayFile{&rf}, wd)
	ok, out := res[0].Reproduced, res[0].Raw
	fmt.Println(out)
	if ok {
		fmt.Printf("REPRODUCED %s [%s] %s\n", rf.Harness, rf.Obligation.Class, rf.Obligation.ID)
		return 1
	}
	fmt.Printf("NOT-REPRODUCED %s [%s] %s\n", rf.Harness, rf.Obligation.Class, rf.Obligation.ID)
	return 0
}
