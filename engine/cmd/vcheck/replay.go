package main

import (
	"bytes"
	"context"
	"encoding/json"
	"fmt"
	"go/ast"
	"go/parser"
	"go/printer"
	"go/token"
	"math/big"
	"os"
	"os/exec"
	"path/filepath"
	"sort"
	"strings"
	"time"
)

type replayFile struct {
	Property   string   `json:"property"`
	Harness    string   `json:"harness"`
	Func       string   `json:"func"`
	Pkg        string   `json:"pkg"`
	IntMode    bool     `json:"int_mode"`
	Obligation ObResult `json:"obligation"`
	Repeat     int      `json:"repeat"`
}

// parseModelValue converts an SMT value to int64 (two's complement for bit-vectors).
func parseModelValue(v string) (int64, bool) {
	v = strings.TrimSpace(v)
	switch v {
	case "true":
		return 1, true
	case "false":
		return 0, true
	}
	if strings.HasPrefix(v, "#x") {
		n := new(big.Int)
		if _, ok := n.SetString(v[2:], 16); ok {
			return int64(n.Uint64()), true
		}
	}
	if strings.HasPrefix(v, "#b") {
		n := new(big.Int)
		if _, ok := n.SetString(v[2:], 2); ok {
			return int64(n.Uint64()), true
		}
	}
	neg := false
	if strings.HasPrefix(v, "(-") {
		neg = true
		v = strings.TrimSuffix(strings.TrimSpace(v[2:]), ")")
		v = strings.TrimSpace(v)
	}
	n := new(big.Int)
	if _, ok := n.SetString(v, 10); ok {
		if neg {
			n.Neg(n)
		}
		if n.IsInt64() {
			return n.Int64(), true
		}
		if n.IsUint64() {
			return int64(n.Uint64()), true
		}
		return 0, false
	}
	return 0, false
}

type replayOutcome struct {
	Leaked     bool
	Reproduced bool
	End        string
	Fails      []string
	Covers     []string
	Raw        string
}

// replayBatch runs several (harness, model) cases natively in one test binary per package.
func replayBatch(cases []*replayFile, workDir string) []replayOutcome {
	out := make([]replayOutcome, len(cases))
	byPkg := map[string][]int{}
	for i, c := range cases {
		byPkg[c.Pkg] = append(byPkg[c.Pkg], i)
	}
	for pkg, idxs := range byPkg {
		text := runReplayPkg(pkg, cases, idxs, filepath.Join(workDir, "p_"+strings.ReplaceAll(pkg, "/", "_")))
		for _, i := range idxs {
			o := &out[i]
			o.Raw = text
			pre := fmt.Sprintf("VREPLAY-CASE %d ", i)
			for _, line := range strings.Split(text, "\n") {
				line = strings.TrimSpace(line)
				if !strings.HasPrefix(line, pre) {
					continue
				}
				rest := strings.TrimPrefix(line, pre)
				switch {
				case strings.HasPrefix(rest, "END "):
					o.End = strings.TrimPrefix(rest, "END ")
				case strings.HasPrefix(rest, "LEAK "):
					o.Leaked = true
				case strings.HasPrefix(rest, "FAIL "):
					o.Fails = append(o.Fails, strings.TrimPrefix(rest, "FAIL "))
				case strings.HasPrefix(rest, "COVER "):
					o.Covers = append(o.Covers, strings.TrimPrefix(rest, "COVER "))
				}
			}
			ob := cases[i].Obligation
			has := func(l []string, x string) bool {
				for _, y := range l {
					if y == x {
						return true
					}
				}
				return false
			}
			switch ob.Class {
			case "assert":
				o.Reproduced = has(o.Fails, ob.ID)
			case "cover":
				o.Reproduced = has(o.Covers, ob.ID)
			case "panic", "deadlock", "unwind":
				// a crash or a hang predicted for some schedule is confirmed by a native crash or hang of the same
				// harness on the same inputs: which of the two forms a schedule-dependent defect takes under the Go
				// scheduler need not be the form it took under the engine's schedule
				o.Reproduced = strings.HasPrefix(o.End, "PANIC") || (o.End == "" && (strings.Contains(text, "panic:") || strings.Contains(text, "fatal error:"))) ||
					o.End == "HANG" || strings.Contains(text, "all goroutines are asleep")
			case "race":
				o.Reproduced = libraryRaceReported(text)
				if o.Reproduced {
					o.End += "+RACE"
				}
			case "leak":
				o.Reproduced = o.Leaked || o.End == "HANG"
				if o.Leaked {
					o.End += "+LEAK"
				}
			default:
				o.Reproduced = len(o.Fails) > 0 || strings.HasPrefix(o.End, "PANIC")
			}
		}
	}
	return out
}

func runReplayPkg(pkg string, cases []*replayFile, idxs []int, workDir string) string {
	os.MkdirAll(workDir, 0o755)
	pkgDir := repoDir
	pkgName := "mpb"
	if pkg != "" && pkg != "root" {
		pkgDir = filepath.Join(repoDir, pkg)
		pkgName = filepath.Base(pkg)
	}
	var sb strings.Builder
	fmt.Fprintf(&sb, "package %s\n\nimport (\n\t\"fmt\"\n\t\"os\"\n\t\"runtime\"\n\t\"sync/atomic\"\n\t\"testing\"\n\t\"time\"\n)\n\n", pkgName)
	sb.WriteString(`func vReplayCase(i int, model map[string]int64, f func(), repeat int, class, id string) {
	start := time.Now()
	for r := 0; r < repeat; r++ {
		// odd attempts perturb the schedule (see vJit); the instrumented statements are otherwise inert
		if r%2 == 1 {
			atomic.StoreUint64(&vJitState, uint64(r)*7919)
			atomic.StoreUint32(&vJitOn, 1)
		}
		vTextShape = r % 3
		last := r == repeat-1 || time.Since(start) > 45*time.Second
		// every fourth attempt runs on a single processor (the engine models runtime.GOMAXPROCS(0) as 1)
		procs := 0
		if r%4 == 2 {
			procs = runtime.GOMAXPROCS(1)
		}
		stop := vReplayOnce(i, model, f, last, class, id)
		if procs > 0 {
			runtime.GOMAXPROCS(procs)
		}
		atomic.StoreUint32(&vJitOn, 0)
		if stop || last {
			return
		}
	}
}

// vReplayOnce runs the harness once; it reports (and returns true) when something went wrong or on the last try.
func vReplayOnce(i int, model map[string]int64, f func(), last bool, class, id string) bool {
	vModel = model
	vFailures = nil
	vCovered = map[string]bool{}
	vMarkCUU = false
	vGhost = map[string][]int64{}
	vGhostF = map[string][]float64{}
	done := make(chan string, 1)
	base := runtime.NumGoroutine()
	go func() {
		defer func() {
			if r := recover(); r != nil {
				if _, ok := r.(vAssumeFailed); ok {
					done <- "ASSUME-FAILED"
					return
				}
				done <- fmt.Sprintf("PANIC %v", r)
				return
			}
		}()
		f()
		done <- "RETURNED"
	}()
	end := ""
	select {
	case r := <-done:
		end = r
	case <-time.After(5 * time.Second):
		end = "HANG"
	}
	leaked := 0
	if end == "RETURNED" {
		// goroutines started during the run must be gone shortly after it returned
		for w := 0; w < 60 && runtime.NumGoroutine() > base; w++ {
			time.Sleep(5 * time.Millisecond)
		}
		if n := runtime.NumGoroutine(); n > base {
			leaked = n - base
		}
	}
	// keep trying until the outcome the solver predicted shows up (other failures do not end the search)
	bad := false
	switch class {
	case "assert":
		for _, f := range vFailures {
			if f == id {
				bad = true
			}
		}
	case "panic", "deadlock", "unwind":
		bad = end == "HANG" || (len(end) >= 5 && end[:5] == "PANIC")
	case "leak":
		bad = leaked > 0 || end == "HANG"
	default:
		bad = end != "RETURNED" || len(vFailures) > 0 || leaked > 0
	}
	if !bad && !last {
		return false
	}
	fmt.Fprintf(os.Stderr, "VREPLAY-CASE %d END %s\n", i, end)
	if leaked > 0 {
		fmt.Fprintf(os.Stderr, "VREPLAY-CASE %d LEAK %d\n", i, leaked)
	}
	for _, f := range vFailures {
		fmt.Fprintf(os.Stderr, "VREPLAY-CASE %d FAIL %s\n", i, f)
	}
	for c := range vCovered {
		fmt.Fprintf(os.Stderr, "VREPLAY-CASE %d COVER %s\n", i, c)
	}
	return true
}

func TestVReplay(t *testing.T) {
`)
	for _, i := range idxs {
		rf := cases[i]
		names := make([]string, 0, len(rf.Obligation.Model))
		for k := range rf.Obligation.Model {
			names = append(names, k)
		}
		sort.Strings(names)
		fmt.Fprintf(&sb, "\tvReplayCase(%d, map[string]int64{", i)
		for _, k := range names {
			if strings.HasPrefix(k, "sched") {
				continue
			}
			if n, ok := parseModelValue(rf.Obligation.Model[k]); ok {
				fmt.Fprintf(&sb, "%q: %d, ", k, n)
			}
		}
		rep := rf.Repeat
		if rep < 1 || rf.Obligation.Class == "cover" {
			rep = 1
		}
		if rep == 1 && rf.Obligation.Class != "cover" {
			rep = 3 // one attempt per text shape (vTextShape)
		}
		switch rf.Obligation.Class {
		case "deadlock", "unwind", "leak", "panic", "race":
			// schedule-dependent outcomes: a non-reproducing attempt takes milliseconds, so try often
			// (bounded by the 45 s cap per case in vReplayCase)
			if rep > 1 && rep < 300 {
				rep = 300
			}
		}
		fmt.Fprintf(&sb, "}, %s, %d, %q, %q)\n", rf.Func, rep, rf.Obligation.Class, rf.Obligation.ID)
	}
	sb.WriteString("}\n")
	testFile := filepath.Join(workDir, "zz_verif_replay_test.go")
	os.WriteFile(testFile, []byte(sb.String()), 0o644)
	ov, err := overlayFiles()
	if err != nil {
		return err.Error()
	}
	repl := map[string]string{}
	k := 0
	for virt, content := range ov {
		real := filepath.Join(workDir, fmt.Sprintf("ov%d_%s", k, filepath.Base(virt)))
		k++
		os.WriteFile(real, content, 0o644)
		repl[virt] = real
	}
	for _, f := range []string{"progress.go", "bar.go", "heap_manager.go"} {
		src := filepath.Join(repoDir, f)
		if inst, err := instrumentJitter(src); err == nil {
			real := filepath.Join(workDir, "jit_"+f)
			os.WriteFile(real, inst, 0o644)
			repl[src] = real
		}
	}
	repl[filepath.Join(pkgDir, "zz_verif_replay_test.go")] = testFile
	ovb, _ := json.Marshal(map[string]interface{}{"Replace": repl})
	ovFile := filepath.Join(workDir, "overlay.json")
	os.WriteFile(ovFile, ovb, 0o644)
	ctx, cancel := context.WithTimeout(context.Background(), 300*time.Second)
	defer cancel()
	rel := "."
	if pkg != "" && pkg != "root" {
		rel = "./" + pkg
	}
	args := []string{"test", "-v", "-vet=off", "-count=1", "-run", "^TestVReplay$", "-overlay", ovFile}
	for _, i := range idxs {
		if cases[i].Obligation.Class == "race" {
			args = append(args, "-race")
			break
		}
	}
	args = append(args, rel)
	cmd := exec.CommandContext(ctx, "go", args...)
	cmd.Dir = repoDir
	cmd.Env = append(os.Environ(), "GOFLAGS=-mod=mod", "GOPROXY=off", "GOSUMDB=off", "GOTOOLCHAIN=local")
	outb, _ := cmd.CombinedOutput()
	return string(outb)
}

func replayMain(args []string) int {
	if len(args) < 1 {
		fmt.Println("usage: vcheck replay <file.json>")
		return 2
	}
	b, err := os.ReadFile(args[0])
	if err != nil {
		fmt.Println(err)
		return 2
	}
	var rf replayFile
	if err := json.Unmarshal(b, &rf); err != nil {
		fmt.Println(err)
		return 2
	}
	os.MkdirAll("/verif/.work", 0o755)
	wd, _ := os.MkdirTemp("/verif/.work", "rp")
	defer os.RemoveAll(wd)
	res := replayBatch([]*replayFile{&rf}, wd)
	ok, out := res[0].Reproduced, res[0].Raw
	fmt.Println(out)
	if ok {
		fmt.Printf("REPRODUCED %s [%s] %s\n", rf.Harness, rf.Obligation.Class, rf.Obligation.ID)
		return 1
	}
	fmt.Printf("NOT-REPRODUCED %s [%s] %s\n", rf.Harness, rf.Obligation.Class, rf.Obligation.ID)
	return 0
}

// instrumentJitter returns the source of a repository file with a call to vJit() inserted before every
// statement of every function body (timing perturbation only; used for native replays, never for /repo).
func instrumentJitter(path string) ([]byte, error) {
	fset := token.NewFileSet()
	f, err := parser.ParseFile(fset, path, nil, parser.ParseComments)
	if err != nil {
		return nil, err
	}
	f.Comments = nil // positions of comments would be wrong after the rewrite; build tags are not used in these files
	call := func() ast.Stmt {
		return &ast.ExprStmt{X: &ast.CallExpr{Fun: ast.NewIdent("vJit")}}
	}
	weave := func(list []ast.Stmt) []ast.Stmt {
		var out []ast.Stmt
		for _, st := range list {
			out = append(out, call(), st)
		}
		return out
	}
	skip := map[*ast.BlockStmt]bool{}
	ast.Inspect(f, func(n ast.Node) bool {
		switch x := n.(type) {
		case *ast.SwitchStmt:
			skip[x.Body] = true
		case *ast.TypeSwitchStmt:
			skip[x.Body] = true
		case *ast.SelectStmt:
			skip[x.Body] = true
		case *ast.BlockStmt:
			if !skip[x] {
				x.List = weave(x.List)
			}
		case *ast.CaseClause:
			x.Body = weave(x.Body)
		case *ast.CommClause:
			x.Body = weave(x.Body)
		}
		return true
	})
	var buf bytes.Buffer
	if err := printer.Fprint(&buf, fset, f); err != nil {
		return nil, err
	}
	return buf.Bytes(), nil
}

// libraryRaceReported: the race detector's output contains a report whose two accesses are both in library
// code (the harness itself is racy by design: it reads recorder fields without synchronisation).
func libraryRaceReported(text string) bool {
	blocks := strings.Split(text, "WARNING: DATA RACE")
	for _, b := range blocks[1:] {
		if end := strings.Index(b, "=================="); end >= 0 {
			b = b[:end]
		}
		// sections start with "Read at", "Write at", "Previous read at", "Previous write at"; the first
		// file line after each header is the accessing frame
		lines := strings.Split(b, "\n")
		var tops []string
		for i := 0; i < len(lines); i++ {
			l := strings.TrimSpace(lines[i])
			if strings.HasPrefix(l, "Read at") || strings.HasPrefix(l, "Write at") || strings.HasPrefix(l, "Previous read at") || strings.HasPrefix(l, "Previous write at") {
				for j := i + 1; j < len(lines); j++ {
					f := strings.TrimSpace(lines[j])
					if strings.HasPrefix(f, "/") {
						tops = append(tops, f)
						break
					}
					if f == "" {
						break
					}
				}
			}
		}
		if len(tops) < 2 {
			continue
		}
		lib := true
		for _, tp := range tops[:2] {
			if strings.Contains(tp, "zz_verif") || strings.Contains(tp, "/ov") || !strings.Contains(tp, repoDir+"/") {
				lib = false
			}
		}
		if lib {
			return true
		}
	}
	return false
}
