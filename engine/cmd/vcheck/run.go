package main

import (
	"fmt"
	"os"
	"sort"
	"strings"
	"time"

	"gosmt/exec"
	"gosmt/solve"
	"gosmt/sym"
)

type HarnessSpec struct {
	Property      string   `json:"property"`
	Name          string   `json:"name"`
	Pkg           string   `json:"pkg"`  // "", "decor", "internal", "cwriter"
	Func          string   `json:"func"` // harness entry point
	Int           bool     `json:"int"`  // int/real arithmetic mode
	Unwind        int      `json:"unwind"`
	Steps         int      `json:"steps"`
	Symbolic      bool     `json:"symbolic"` // scheduler choice is a solver variable
	Tier          string   `json:"tier"`     // quick | thorough | both
	TimeoutMs     int      `json:"timeout_ms"`
	Solver        string   `json:"solver"`
	SliceCap      int      `json:"slice_cap"`
	Facet         string   `json:"facet"`
	NoPrune       bool     `json:"no_prune"`
	NoReplay      bool     `json:"no_replay"` // harness cannot run natively (uses engine-only vocabulary)
	NoBatch       bool     `json:"no_batch"`
	SymFrom       int      `json:"sym_from"` // symbolic-schedule window [sym_from, sym_to)
	SymTo         int      `json:"sym_to"`
	Policy        string   `json:"policy"` // baseline schedule outside the window
	Window        int      `json:"window"` // expand into a family of windows of this length ...
	Stride        int      `json:"stride"` // ... every stride steps over the baseline run
	Policies      []string `json:"policies"`
	QuickWindows  []int    `json:"quick_windows"`  // window starts also run in the quick tier
	QuickPolicies []string `json:"quick_policies"` // policies of the quick tier (default: all)
	Repeat        int      `json:"repeat"`
	BudgetS       int      `json:"budget_s"`
	isWindow      bool
	Race          bool               `json:"race"`         // happens-before race detection along the explored schedule
	BranchPrune   bool               `json:"branch_prune"` // wall-clock budget of one symbolic execution
	Classes       []string           `json:"classes"`      // obligation classes judged for this property (empty = all)
	AssertIDs     []string           `json:"assert_ids"`   // substrings of assertion ids judged (empty = all)         // native replay: repeat up to this many times (schedule-dependent scenarios)
	Params        map[string]int64   `json:"params"`       // concrete parameters of this run
	Expand        map[string][]int64 `json:"expand"`       // one run per combination of these parameter values
	Stubs         map[string]string  `json:"stubs"`        // repository function -> contract function in the overlay (assume-guarantee)
}

type ObResult struct {
	Class  string            `json:"class"`
	ID     string            `json:"id"`
	Pos    string            `json:"pos,omitempty"`
	Step   int               `json:"step,omitempty"`
	Result string            `json:"result"` // unsat | sat | unknown
	Ms     int64             `json:"ms"`
	Model  map[string]string `json:"model,omitempty"`
	Solver string            `json:"solver,omitempty"`
}

type HarnessResult struct {
	Spec        HarnessSpec
	Obs         []ObResult
	Err         string
	Funcs       []string
	Stubs       []string
	Assumptions []string
	Notes       []string
	NInstr      int
	NBlocks     int
	NObjects    int
	NTerms      int
	NSteps      int
	NCands      int
	NTrivial    int
	NBatched    int
	NAssumes    int
	ExecMs      int64
	SolveMs     int64
	Inputs      []string
	StepLog     []exec.StepInfo
}

func newSolver(kind string, to int) (*solve.Solver, error) {
	if kind == "" {
		kind = "z3"
	}
	return solve.New(kind, to)
}

// runHarness executes one harness symbolically and discharges its obligations.
func runHarness(l *loaded, spec HarnessSpec, trace bool, dumpDir string) *HarnessResult {
	res := &HarnessResult{Spec: spec}
	fn := l.findFunc(spec.Pkg, spec.Func)
	if fn == nil {
		res.Err = "harness function not found: " + spec.Pkg + "." + spec.Func
		return res
	}
	to := spec.TimeoutMs
	if to == 0 {
		to = 60000
	}
	m := exec.NewMachine(l.prog, spec.Int)
	m.RepoPrefix = repoMod
	m.ExecReal["container/heap"] = true
	m.ExecReal["io"] = true
	m.ExecReal["sort"] = true
	m.ExecReal["slices"] = true
	m.ExecReal["cmp"] = true
	m.Trace = trace
	if spec.Unwind > 0 {
		m.Unwind = spec.Unwind
	}
	if spec.Steps > 0 {
		m.MaxSteps = spec.Steps
	}
	if spec.SliceCap > 0 {
		m.SliceCap = spec.SliceCap
	}
	for from, to := range spec.Stubs {
		m.Intrinsics[from] = exec.Redirect(to)
	}
	m.SymFrom, m.SymTo, m.Policy = spec.SymFrom, spec.SymTo, spec.Policy
	m.Params = spec.Params
	m.RaceDetect = spec.Race
	m.PruneBranches = spec.BranchPrune
	budget := spec.BudgetS
	if budget == 0 {
		budget = 300
	}
	m.Deadline = time.Now().Add(time.Duration(budget) * time.Second)
	m.Deterministic = !spec.Symbolic
	m.PollMiss = spec.Symbolic || spec.SymTo > spec.SymFrom || strings.Contains(spec.Policy, "pollmiss")
	m.NoPrune = spec.NoPrune

	// pruning solver: assumptions asserted as they appear
	pr := sym.NewPrinter(m.C)
	pr.Named = true
	ps, err := newSolver("z3-new", 2000)
	if err != nil {
		res.Err = err.Error()
		return res
	}
	defer func() { ps.Close() }()
	synced := 0
	var nFeas int
	var feasDur time.Duration
	feasCache := map[int]bool{}
	m.Feasible = func(g exec.T) bool {
		if g.IsFalse() {
			return false
		}
		if g.IsTrue() {
			return true
		}
		if r, ok := feasCache[g.ID]; ok {
			return r
		}
		nFeas++
		f0 := time.Now()
		defer func() { feasDur += time.Since(f0) }()
		if ps.Dead {
			ps.Close()
			np, err := newSolver("z3-new", 2000)
			if err != nil {
				return true
			}
			ps, pr, synced = np, sym.NewPrinter(m.C), 0
			pr.Named = true
		}
		for ; synced < len(m.Events); synced++ {
			e := m.Events[synced]
			if e.Kind == exec.EvAssume {
				ps.Send(pr.Emit(e.Cond))
				ps.Send("(assert " + pr.Ref(e.Cond) + ")\n")
			}
		}
		ps.Send(pr.Emit(g))
		r, _, _ := ps.Check("(assert "+pr.Ref(g)+")\n", nil)
		// unsat stays unsat as assumptions only grow; a cached "feasible" can only make pruning less sharp
		feasCache[g.ID] = r != solve.Unsat
		return r != solve.Unsat
	}

	t0 := time.Now()
	m.Trace2 = os.Getenv("VCHECK_PROGRESS") == "2"
	m.ClockKeys = os.Getenv("VCHECK_CLOCKKEYS") != "0"
	if os.Getenv("VCHECK_PROGRESS") != "" {
		m.Progress = func(step, enumerated, live, alts, gors int) {
			fmt.Fprintf(os.Stderr, "[%s] step %d: %d candidates (%d enumerated), %d alternatives in %d goroutines, %d terms, %d feasibility queries (%.1fs), t=%.1fs\n",
				spec.Name, step, live, enumerated, alts, gors, m.C.NumNodes(), nFeas, feasDur.Seconds(), time.Since(t0).Seconds())
		}
	}
	if err := m.RunInits(l.pkgs); err != nil {
		res.Err = err.Error()
		return res
	}
	runErr := m.Run(fn)
	res.ExecMs = time.Since(t0).Milliseconds()
	res.Notes = append(res.Notes, fmt.Sprintf("feasibility queries during symbolic execution: %d (%d ms)", nFeas, feasDur.Milliseconds()))
	res.Funcs = m.SortedFuncs()
	for k := range m.Stubs {
		res.Stubs = append(res.Stubs, k)
	}
	sort.Strings(res.Stubs)
	for k := range m.Assumptions {
		res.Assumptions = append(res.Assumptions, k)
	}
	sort.Strings(res.Assumptions)
	res.Notes = append(res.Notes, m.Notes...)
	res.NInstr, res.NBlocks, res.NObjects, res.NTerms = m.NInstr, m.NBlocks, m.NObjects, m.C.NumNodes()
	res.NTrivial = m.NTrivial
	res.StepLog = m.StepLog
	res.NSteps = len(m.StepLog)
	for _, s := range m.StepLog {
		res.NCands += s.NCands
	}
	for _, iv := range m.Inputs {
		res.Inputs = append(res.Inputs, iv.Name)
	}
	if runErr != nil {
		res.Err = runErr.Error()
		return res
	}

	// discharge chronologically; every query is self-contained inside push/pop:
	// the assumptions emitted before the obligation whose guard does not contradict it, then the obligation.
	kinds := strings.Split(spec.Solver, ",")
	if spec.Solver == "" {
		// fallback chain: a quick z3 attempt first, then the other back-ends with the full budget
		kinds = []string{"z3-new:quick", "cvc5:half", "z3-new", "z3"}
	}
	type inst struct {
		kind string
		s    *solve.Solver
		p    *sym.Printer
	}
	var insts []*inst
	var logf *os.File
	if dumpDir != "" {
		os.MkdirAll(dumpDir, 0o755)
		logf, _ = os.Create(dumpDir + "/" + spec.Name + ".smt2")
		if logf != nil {
			defer logf.Close()
		}
	}
	start := func(i *inst) error {
		kind, tmo := i.kind, to
		if strings.HasSuffix(kind, ":quick") {
			kind = strings.TrimSuffix(kind, ":quick")
			tmo = to / 6
			if tmo < 1500 {
				tmo = 1500
			}
		}
		if strings.HasSuffix(kind, ":half") {
			kind = strings.TrimSuffix(kind, ":half")
			tmo = to / 2
		}
		s, err := newSolver(kind, tmo)
		if err != nil {
			return err
		}
		i.s, i.p = s, sym.NewPrinter(m.C)

		for _, iv := range m.Inputs {
			s.Send(i.p.Emit(iv.Term))
		}
		for _, st := range m.StepLog {
			if st.Choice != nil {
				s.Send(i.p.Emit(st.Choice))
			}
		}
		return nil
	}
	for _, k := range kinds {
		insts = append(insts, &inst{kind: k})
	}
	defer func() {
		for _, i := range insts {
			if i.s != nil {
				i.s.Close()
			}
		}
	}()
	var valNames []string
	valSeen := map[string]bool{}
	for _, iv := range m.Inputs {
		if !valSeen[iv.Name] {
			valSeen[iv.Name] = true
			valNames = append(valNames, quoteName(iv.Term.Name))
		}
	}
	for _, st := range m.StepLog {
		if st.Choice != nil {
			valNames = append(valNames, quoteName(st.Choice.Name))
		}
	}
	ts := time.Now()
	c := m.C
	// prefix conjunctions of assumptions: pref[k] = a_1 and ... and a_k
	var assumes []exec.Event
	nAssBefore := make([]int, len(m.Events))
	for i, e := range m.Events {
		nAssBefore[i] = len(assumes)
		if e.Kind == exec.EvAssume {
			res.NAssumes++
			assumes = append(assumes, e)
		}
	}
	qn := 0
	checkOne := func(e exec.Event, nAss int) ObResult {
		var rel []exec.T
		for _, a := range assumes[:nAss] {
			if a.Guard != nil && c.And(e.Cond, a.Guard).IsFalse() {
				continue
			}
			rel = append(rel, a.Cond)
		}
		ob := ObResult{Class: e.Class, ID: e.ID, Pos: e.Pos, Step: e.Step, Result: "unknown"}
		q0 := time.Now()
		if dumpDir != "" {
			qn++
			fp := sym.NewPrinter(m.C)
			var sb strings.Builder
			sb.WriteString(fp.Emit(append(rel, e.Cond)...))
			for _, a := range rel {
				sb.WriteString("(assert " + fp.Ref(a) + ")\n")
			}
			sb.WriteString("(assert " + fp.Ref(e.Cond) + ")\n(check-sat)\n")
			os.WriteFile(fmt.Sprintf("%s/%s_q%03d_%s.smt2", dumpDir, spec.Name, qn, e.Class), []byte(sb.String()), 0o644)
		}
		for _, i := range insts {
			if i.s == nil || i.s.Dead {
				if err := start(i); err != nil {
					continue
				}
			}
			var sb strings.Builder
			i.s.Send(i.p.Emit(append(rel, e.Cond)...))
			for _, a := range rel {
				sb.WriteString("(assert " + i.p.Ref(a) + ")\n")
			}
			sb.WriteString("(assert " + i.p.Ref(e.Cond) + ")\n")
			r, vals, err := i.s.Check(sb.String(), valNames)
			if err != nil {
				res.Notes = append(res.Notes, fmt.Sprintf("%s on %s/%s: %v", i.kind, e.Class, e.ID, err))
			}
			if r == solve.Unknown || err != nil {
				continue
			}
			ob.Result = r.String()
			ob.Solver = strings.Split(i.kind, ":")[0]
			if r == solve.Sat {
				ob.Model = map[string]string{}
				for k, v := range vals {
					ob.Model[strings.Trim(k, "|")] = v
				}
			}
			break
		}
		ob.Ms = time.Since(q0).Milliseconds()
		return ob
	}
	// batch the engine-generated side obligations (wrap, panic, fpexc, bound): one query
	// OR_i (O_i and prefix_i) decides them all when it is unsat; otherwise they are checked one by one.
	batchable := func(cl string) bool { return cl == "wrap" || cl == "panic" || cl == "fpexc" || cl == "bound" }
	batchOK := false
	var nBatch int
	if !spec.NoBatch {
		var disj []exec.T
		var pref []exec.T // pref[k] conj of first k assumptions
		pref = append(pref, c.True)
		for _, a := range assumes {
			pref = append(pref, c.And(pref[len(pref)-1], a.Cond))
		}
		for i, e := range m.Events {
			if e.Kind == exec.EvOblige && batchable(e.Class) {
				disj = append(disj, c.And(e.Cond, pref[nAssBefore[i]]))
				nBatch++
			}
		}
		if nBatch > 3 {
			be := exec.Event{Kind: exec.EvOblige, Class: "batch", ID: fmt.Sprintf("%d side obligations (wrap/panic/fpexc/bound) in one query", nBatch), Cond: c.Or(disj...)}
			ob := checkOne(be, 0)
			if ob.Result == "unsat" {
				batchOK = true
				res.Obs = append(res.Obs, ob)
				res.NBatched = nBatch
			}
		}
	}
	for i, e := range m.Events {
		if e.Kind != exec.EvOblige {
			continue
		}
		if batchOK && batchable(e.Class) {
			continue
		}
		res.Obs = append(res.Obs, checkOne(e, nAssBefore[i]))
	}
	res.SolveMs = time.Since(ts).Milliseconds()
	return res
}

func quoteName(name string) string {
	ok := true
	for _, r := range name {
		if !(r >= 'a' && r <= 'z' || r >= 'A' && r <= 'Z' || r >= '0' && r <= '9' || r == '_' || r == '.' || r == '!') {
			ok = false
		}
	}
	if ok && len(name) > 0 && !(name[0] >= '0' && name[0] <= '9') {
		return name
	}
	return "|" + name + "|"
}
