package exec

import (
	"golang.org/x/tools/go/ssa"
)

// FnInfo caches per-function analysis: register numbering, loop-aware block order, loop chains.
type FnInfo struct {
	Fn      *ssa.Function
	Idx     int
	RegOf   map[ssa.Value]int
	NRegs   int
	Pos     []int   // block index -> position in loop-aware order
	Chain   [][]int // block index -> loop headers (block indices), outermost first
	IsBack  map[[2]int]bool
	InLoop  []map[int]bool // header block index -> set of member blocks
	Headers []int
}

func (m *Machine) fnInfo(fn *ssa.Function) *FnInfo {
	if fi, ok := m.fnInfos[fn]; ok {
		return fi
	}
	fi := &FnInfo{Fn: fn, Idx: len(m.fnInfos) + 1, RegOf: map[ssa.Value]int{}, IsBack: map[[2]int]bool{}}
	m.fnInfos[fn] = fi
	n := 0
	for _, p := range fn.Params {
		fi.RegOf[p] = n
		n++
	}
	for _, p := range fn.FreeVars {
		fi.RegOf[p] = n
		n++
	}
	for _, b := range fn.Blocks {
		for _, ins := range b.Instrs {
			if v, ok := ins.(ssa.Value); ok {
				fi.RegOf[v] = n
				n++
			}
		}
	}
	fi.NRegs = n
	nb := len(fn.Blocks)
	if nb == 0 {
		return fi
	}
	// back edges: t->h where h dominates t
	loops := map[int]map[int]bool{} // header -> members
	for _, b := range fn.Blocks {
		for _, s := range b.Succs {
			if s.Dominates(b) {
				fi.IsBack[[2]int{b.Index, s.Index}] = true
				mem := loops[s.Index]
				if mem == nil {
					mem = map[int]bool{s.Index: true}
					loops[s.Index] = mem
				}
				// natural loop: nodes reaching b without passing s
				stack := []*ssa.BasicBlock{b}
				for len(stack) > 0 {
					x := stack[len(stack)-1]
					stack = stack[:len(stack)-1]
					if mem[x.Index] {
						continue
					}
					mem[x.Index] = true
					for _, p := range x.Preds {
						stack = append(stack, p)
					}
				}
			}
		}
	}
	fi.InLoop = make([]map[int]bool, nb)
	for h, mem := range loops {
		fi.InLoop[h] = mem
		fi.Headers = append(fi.Headers, h)
	}
	// loop chain per block: headers whose loop contains the block, sorted by loop size desc (outermost first)
	fi.Chain = make([][]int, nb)
	for bi := 0; bi < nb; bi++ {
		var hs []int
		for h, mem := range loops {
			if mem[bi] {
				hs = append(hs, h)
			}
		}
		// sort by member count desc, tie by header index
		for i := 1; i < len(hs); i++ {
			for j := i; j > 0; j-- {
				a, b := hs[j-1], hs[j]
				if len(loops[a]) < len(loops[b]) || (len(loops[a]) == len(loops[b]) && a > b) {
					hs[j-1], hs[j] = hs[j], hs[j-1]
				}
			}
		}
		fi.Chain[bi] = hs
	}
	// loop-aware DFS: visit successors leaving the current innermost loop first so that they
	// finish first and end up later in reverse post-order.
	visited := make([]bool, nb)
	var post []int
	depthOf := func(bi int) int { return len(fi.Chain[bi]) }
	var dfs func(b *ssa.BasicBlock)
	dfs = func(b *ssa.BasicBlock) {
		visited[b.Index] = true
		succs := append([]*ssa.BasicBlock(nil), b.Succs...)
		// order: smaller loop depth first (exits), and among equal keep original order reversed
		for i := 1; i < len(succs); i++ {
			for j := i; j > 0 && depthOf(succs[j-1].Index) > depthOf(succs[j].Index); j-- {
				succs[j-1], succs[j] = succs[j], succs[j-1]
			}
		}
		// refine: successors not in b's innermost loop go first
		if ch := fi.Chain[b.Index]; len(ch) > 0 {
			inner := loops[ch[len(ch)-1]]
			var out, in []*ssa.BasicBlock
			for _, s := range succs {
				if inner[s.Index] {
					in = append(in, s)
				} else {
					out = append(out, s)
				}
			}
			succs = append(out, in...)
		}
		for _, s := range succs {
			if !visited[s.Index] {
				dfs(s)
			}
		}
		post = append(post, b.Index)
	}
	dfs(fn.Blocks[0])
	// unreachable blocks (e.g. recover) get positions at the end
	for _, b := range fn.Blocks {
		if !visited[b.Index] {
			post = append([]int{b.Index}, post...)
		}
	}
	fi.Pos = make([]int, nb)
	for i, bi := range post {
		fi.Pos[bi] = len(post) - 1 - i
	}
	return fi
}
