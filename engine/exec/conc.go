package exec

import (
	"fmt"
	"go/token"
	"go/types"
	"os"
	"sort"
	"strings"
	"time"

	"gosmt/sym"

	"golang.org/x/tools/go/ssa"
)

type OpKind int

const (
	OpSend OpKind = iota
	OpRecv
	OpSelect
	OpClose
	OpWgAdd
	OpWgWait
	OpCancel
	OpYield
)

type SelCase struct {
	Send bool
	Ch   Ptr
	Val  Value
}

type VisOp struct {
	Kind      OpKind
	Ch        Ptr
	Val       Value
	CommaOk   bool
	Cases     []SelCase
	Blocking  bool
	N         T
	Wg        Ptr
	Cancel    FuncV
	Instr     ssa.Instruction
	ResultReg int
	Deferred  bool
	ElemT     types.Type
}

type Gor struct {
	ID    int
	Name  string
	Alts  map[string]*Item
	Done  T
	Spawn T
	Env   bool // environment / harness helper goroutine (not a library goroutine for leak purposes)
}

type StepInfo struct {
	Step   int
	NCands int
	Cands  []string
	Choice T
}

// channel cells: 0 closed, 1 len, 2 cap, 3.. slots
func (m *Machine) NewChan(it *Item, elem types.Type, size T, site string) *Object {
	c := m.C
	slots := m.ChanSlots
	if k, ok := size.Int64(); ok {
		slots = int(k)
		if slots > 8 {
			// large queues (e.g. default 128) behave as "never full" within the bound
			slots = 8
			m.Assumptions[fmt.Sprintf("channel of capacity %d modelled with 8 slots (never fills within the explored bound; checked by a bound obligation)", k)] = true
		}
	} else if it != nil {
		m.Oblige("bound", "channel capacity exceeds modelled slots", c.And(it.G, m.slt(m.IntC(int64(slots)), size)), m.posOf(it))
	}
	cells := []Value{c.False, m.IntC(0), size}
	for i := 0; i < slots; i++ {
		cells = append(cells, m.ZeroValue(elem))
	}
	return m.canonObject(Object{Kind: KChan, Site: site, T: elem, Cap: slots}, cells)
}

func (m *Machine) newGor(name string, spawn T) *Gor {
	g := &Gor{ID: len(m.gors) + 1, Name: name, Alts: map[string]*Item{}, Done: m.C.False, Spawn: spawn}
	m.gors = append(m.gors, g)
	return g
}

func (f *Frame) keyWithGor(gid int) []int32 {
	return append([]int32{int32(gid)}, f.key()...)
}

// suspend parks an item at its current instruction (a visible operation).
func (m *Machine) suspend(it *Item, op *VisOp) {
	it.Op = op
	m.susp = append(m.susp, it)
}

func (m *Machine) suspendSelect(it *Item, x *ssa.Select) {
	m.suspend(it, nil)
}

func zeroIters(f *Frame) *Frame {
	if f == nil {
		return nil
	}
	nf := *f
	nf.iters = make([]int, len(f.iters))
	nf.parent = zeroIters(f.parent)
	// recompute prefix
	if nf.parent != nil {
		nf.prefix = append(nf.parent.key(), int32(nf.fi.Idx))
	}
	return &nf
}

func (m *Machine) gorFinished(it *Item) {
	g := it.Gor
	g.Done = m.C.Or(g.Done, it.G)
}

// doGo spawns a goroutine; its first region runs in the same step.
func (m *Machine) doGo(it *Item, x *ssa.Go) {
	f := it.F
	cc := &x.Call
	var args []Value
	for _, a := range cc.Args {
		args = append(args, m.val(f, a))
	}
	spawnKey := m.eventKey("go")
	start := func(fn *ssa.Function, binds []Value, full []Value, guard T, tag string) {
		key := spawnKey + "|" + tag
		g, ok := m.spawned[key]
		if !ok {
			g = m.newGor(fn.Name()+"@"+m.siteOf(x), m.C.False)
			g.Env = it.Gor.Env && strings.HasPrefix(fn.Name(), "v")
			m.spawned[key] = g
		}
		g.Spawn = m.C.Or(g.Spawn, guard)
		m.raceSpawn(it.Gor, g)
		ni := &Item{G: guard, Gor: g}
		if h, isIntr := m.Intrinsics[fn.String()]; isIntr {
			_ = h
			m.fail("go of intrinsic %s", fn)
		}
		m.enterFunction(ni, fn, full, binds, -1)
		m.gwlAdd(ni)
	}
	if cc.IsInvoke() {
		iv := m.val(f, cc.Value).(Iface)
		for _, a := range iv.Alts {
			g := m.C.And(it.G, a.G)
			if g.IsFalse() {
				continue
			}
			if a.S != "" {
				m.fail("go on synthetic interface method")
			}
			fn := m.Prog.LookupMethod(a.T, cc.Method.Pkg(), cc.Method.Name())
			start(fn, nil, append([]Value{a.V}, args...), g, fn.String())
		}
		return
	}
	switch callee := cc.Value.(type) {
	case *ssa.Function:
		start(callee, nil, args, it.G, "s")
	case *ssa.Builtin:
		m.fail("go builtin")
	default:
		fv := m.val(f, cc.Value).(FuncV)
		for _, a := range fv.Alts {
			g := m.C.And(it.G, a.G)
			if g.IsFalse() {
				continue
			}
			if a.Builtin != "" {
				m.fail("go of builtin closure")
			}
			start(a.Fn, a.Binds, args, g, a.Fn.String())
		}
	}
}

// gwlAdd adds an item to the current region worklist under its goroutine-qualified key.
func (m *Machine) gwlAdd(it *Item) { m.wlAdd(m.wl, it) }

// ---- decoding the visible op an item is suspended at

func (m *Machine) decodeOp(it *Item) *VisOp {
	f := it.F
	ins := f.fi.Fn.Blocks[f.block].Instrs[f.pc]
	switch x := ins.(type) {
	case *ssa.Send:
		return &VisOp{Kind: OpSend, Ch: m.val(f, x.Chan).(Ptr), Val: m.val(f, x.X), Instr: x}
	case *ssa.UnOp:
		if x.Op == token.ARROW {
			return &VisOp{Kind: OpRecv, Ch: m.val(f, x.X).(Ptr), CommaOk: x.CommaOk, Instr: x,
				ElemT: x.X.Type().Underlying().(*types.Chan).Elem(), ResultReg: f.fi.RegOf[x]}
		}
	case *ssa.Select:
		op := &VisOp{Kind: OpSelect, Blocking: x.Blocking, Instr: x, ResultReg: f.fi.RegOf[x]}
		for _, st := range x.States {
			sc := SelCase{Send: st.Dir == types.SendOnly, Ch: m.val(f, st.Chan).(Ptr)}
			if sc.Send {
				sc.Val = m.val(f, st.Send)
			}
			op.Cases = append(op.Cases, sc)
		}
		return op
	case *ssa.Call:
		var args []Value
		for _, a := range x.Common().Args {
			args = append(args, m.val(f, a))
		}
		var fnv Value
		switch x.Common().Value.(type) {
		case *ssa.Function, *ssa.Builtin:
		default:
			if !x.Common().IsInvoke() {
				fnv = m.val(f, x.Common().Value)
			}
		}
		return m.decodeCallOp(x.Common(), fnv, args, f.fi.RegOf[x], false, x)
	case *ssa.RunDefers:
		de := f.defers[len(f.defers)-1]
		return m.decodeCallOp(de.call, de.fn, de.args, -2, true, x)
	}
	m.fail("decodeOp: item not at a visible operation: %s", ins)
	return nil
}

func (m *Machine) decodeCallOp(cc *ssa.CallCommon, fnv Value, args []Value, resultReg int, deferred bool, ins ssa.Instruction) *VisOp {
	switch callee := cc.Value.(type) {
	case *ssa.Builtin:
		if callee.Name() == "close" {
			return &VisOp{Kind: OpClose, Ch: args[0].(Ptr), Instr: ins, ResultReg: resultReg, Deferred: deferred}
		}
	case *ssa.Function:
		switch callee.String() {
		case "(*sync.WaitGroup).Add":
			return &VisOp{Kind: OpWgAdd, Wg: args[0].(Ptr), N: args[1].(T), Instr: ins, ResultReg: resultReg, Deferred: deferred}
		case "(*sync.WaitGroup).Done":
			return &VisOp{Kind: OpWgAdd, Wg: args[0].(Ptr), N: m.IntC(-1), Instr: ins, ResultReg: resultReg, Deferred: deferred}
		case "(*sync.WaitGroup).Wait":
			return &VisOp{Kind: OpWgWait, Wg: args[0].(Ptr), Instr: ins, ResultReg: resultReg, Deferred: deferred}
		}
		if callee.Name() == "vYield" {
			return &VisOp{Kind: OpYield, Instr: ins, ResultReg: resultReg, Deferred: deferred}
		}
	}
	if fv, ok := fnv.(FuncV); ok {
		for _, a := range fv.Alts {
			if a.Builtin != "ctxcancel" {
				m.fail("decodeCallOp: suspended call through non-cancel func value")
			}
		}
		return &VisOp{Kind: OpCancel, Cancel: fv, Instr: ins, ResultReg: resultReg, Deferred: deferred}
	}
	m.fail("decodeCallOp: not a visible call: %v", cc)
	return nil
}

// ---- candidate enumeration

type endpoint struct {
	it      *Item
	op      *VisOp
	caseIdx int // -1 for plain send/recv
	g       T   // guard that the channel operand is this object
	val     Value
}

type Cand struct {
	Kind string // rv | bsend | brecv | rclosed | default | close | wgadd | wgwait | cancel | yield
	Miss bool   // default taken although a partner waits on an unbuffered channel (see enumerate)
	A, B endpoint
	Obj  *Object
	En   T
	Sel  T
	Desc string
}

func (m *Machine) chanState(o *Object) (closed, ln, cp T) {
	return m.heap.Get(o, 0).(T), m.heap.Get(o, 1).(T), m.heap.Get(o, 2).(T)
}

func (m *Machine) sortedAlts(g *Gor) []*Item {
	keys := make([]string, 0, len(g.Alts))
	for k := range g.Alts {
		keys = append(keys, k)
	}
	sort.Strings(keys)
	out := make([]*Item, 0, len(keys))
	for _, k := range keys {
		out = append(out, g.Alts[k])
	}
	return out
}

func (m *Machine) itemDesc(it *Item) string {
	return fmt.Sprintf("g%d:%s@%s", it.Gor.ID, it.Gor.Name, shortPos(m.posOf(it)))
}

func shortPos(p string) string {
	if j := strings.Index(p, " ("); j >= 0 {
		p = p[:j]
	}
	i := strings.LastIndex(p, "/")
	if i >= 0 {
		return p[i+1:]
	}
	return p
}

func (m *Machine) enumerate() []*Cand {
	c := m.C
	senders := map[*Object][]endpoint{}
	receivers := map[*Object][]endpoint{}
	var chans []*Object
	seenCh := map[*Object]bool{}
	noteCh := func(o *Object) {
		if !seenCh[o] {
			seenCh[o] = true
			chans = append(chans, o)
		}
	}
	var cands []*Cand
	type selItem struct {
		it *Item
		op *VisOp
	}
	var selects []selItem
	for _, g := range m.gors {
		for _, it := range m.sortedAlts(g) {
			if it.G.IsFalse() {
				continue
			}
			op := m.decodeOp(it)
			it.Op = op
			switch op.Kind {
			case OpSend:
				for _, a := range op.Ch.Alts {
					if a.Obj.Kind != KChan {
						m.fail("send on non-channel object")
					}
					senders[a.Obj] = append(senders[a.Obj], endpoint{it, op, -1, a.G, op.Val})
					noteCh(a.Obj)
				}
			case OpRecv:
				for _, a := range op.Ch.Alts {
					receivers[a.Obj] = append(receivers[a.Obj], endpoint{it, op, -1, a.G, nil})
					noteCh(a.Obj)
				}
			case OpSelect:
				for i, sc := range op.Cases {
					for _, a := range sc.Ch.Alts {
						if sc.Send {
							senders[a.Obj] = append(senders[a.Obj], endpoint{it, op, i, a.G, sc.Val})
						} else {
							receivers[a.Obj] = append(receivers[a.Obj], endpoint{it, op, i, a.G, nil})
						}
						noteCh(a.Obj)
					}
				}
				if !op.Blocking {
					selects = append(selects, selItem{it, op})
				}
			case OpClose:
				cands = append(cands, &Cand{Kind: "close", A: endpoint{it: it, op: op}, En: it.G, Desc: "close " + m.itemDesc(it)})
			case OpWgAdd:
				cands = append(cands, &Cand{Kind: "wgadd", A: endpoint{it: it, op: op}, En: it.G, Desc: "wg.Add/Done " + m.itemDesc(it)})
			case OpWgWait:
				cnt := m.Load(it, op.Wg, types.Typ[types.Int]).(T)
				cands = append(cands, &Cand{Kind: "wgwait", A: endpoint{it: it, op: op}, En: c.And(it.G, c.Eq(cnt, m.IntC(0))), Desc: "wg.Wait " + m.itemDesc(it)})
			case OpCancel:
				cands = append(cands, &Cand{Kind: "cancel", A: endpoint{it: it, op: op}, En: it.G, Desc: "cancel " + m.itemDesc(it)})
			case OpYield:
				cands = append(cands, &Cand{Kind: "yield", A: endpoint{it: it, op: op}, En: it.G, Desc: "yield " + m.itemDesc(it)})
			}
		}
	}
	sort.Slice(chans, func(i, j int) bool { return chans[i].ID < chans[j].ID })
	sendReady := map[*Object]T{}
	recvReady := map[*Object]T{}
	sendReadyNoPartner := map[*Object]T{}
	recvReadyNoPartner := map[*Object]T{}
	for _, o := range chans {
		closed, ln, cp := m.chanState(o)
		z := m.IntC(0)
		unbuf := c.Eq(cp, z)
		var partnersForSend, partnersForRecv []T
		for _, s := range senders[o] {
			for _, r := range receivers[o] {
				if s.it.Gor == r.it.Gor {
					continue
				}
				en := c.And(s.it.G, r.it.G, s.g, r.g, c.Not(closed), unbuf)
				if en.IsFalse() {
					continue
				}
				cands = append(cands, &Cand{Kind: "rv", A: s, B: r, Obj: o, En: en,
					Desc: fmt.Sprintf("rendezvous %s -> %s on %s", m.itemDesc(s.it), m.itemDesc(r.it), o)})
			}
		}
		for _, r := range receivers[o] {
			partnersForSend = append(partnersForSend, c.And(r.it.G, r.g))
		}
		for _, s := range senders[o] {
			partnersForRecv = append(partnersForRecv, c.And(s.it.G, s.g))
		}
		for _, s := range senders[o] {
			en := c.And(s.it.G, s.g, c.Not(closed), m.slt(ln, cp))
			if !en.IsFalse() {
				cands = append(cands, &Cand{Kind: "bsend", A: s, Obj: o, En: en, Desc: fmt.Sprintf("buffered send %s on %s", m.itemDesc(s.it), o)})
			}
			pc := c.And(s.it.G, s.g, closed)
			if !pc.IsFalse() {
				m.Oblige("panic", "send on closed channel", pc, m.posOf(s.it))
			}
		}
		for _, r := range receivers[o] {
			en := c.And(r.it.G, r.g, m.slt(z, ln))
			if !en.IsFalse() {
				cands = append(cands, &Cand{Kind: "brecv", A: r, Obj: o, En: en, Desc: fmt.Sprintf("buffered recv %s on %s", m.itemDesc(r.it), o)})
			}
			en2 := c.And(r.it.G, r.g, closed, c.Eq(ln, z))
			if !en2.IsFalse() {
				cands = append(cands, &Cand{Kind: "rclosed", A: r, Obj: o, En: en2, Desc: fmt.Sprintf("recv on closed %s on %s", m.itemDesc(r.it), o)})
			}
		}
		sendReady[o] = c.Or(closed, m.slt(ln, cp), c.And(unbuf, c.Or(partnersForSend...)))
		recvReady[o] = c.Or(closed, m.slt(z, ln), c.And(unbuf, c.Or(partnersForRecv...)))
		sendReadyNoPartner[o] = c.Or(closed, m.slt(ln, cp))
		recvReadyNoPartner[o] = c.Or(closed, m.slt(z, ln))
	}
	for _, s := range selects {
		var anyReady, anyReadyNoPartner []T
		for _, sc := range s.op.Cases {
			for _, a := range sc.Ch.Alts {
				if sc.Send {
					anyReady = append(anyReady, c.And(a.G, sendReady[a.Obj]))
					anyReadyNoPartner = append(anyReadyNoPartner, c.And(a.G, sendReadyNoPartner[a.Obj]))
				} else {
					anyReady = append(anyReady, c.And(a.G, recvReady[a.Obj]))
					anyReadyNoPartner = append(anyReadyNoPartner, c.And(a.G, recvReadyNoPartner[a.Obj]))
				}
			}
		}
		en := c.And(s.it.G, c.Not(c.Or(anyReady...)))
		if !en.IsFalse() {
			cands = append(cands, &Cand{Kind: "default", A: endpoint{it: s.it, op: s.op}, En: en, Desc: "select default " + m.itemDesc(s.it)})
		}
		// a poll (select with default) whose only ready cases are rendezvous with a goroutine waiting on an
		// unbuffered channel can also miss: moves are communications, the local code a goroutine runs between
		// two of them is folded into the earlier one, so "the partner has not reached its channel operation
		// yet" is a schedule of the real program that the model would otherwise never show. The deterministic
		// policies take this alternative last (never), "pollmiss" takes it first; symbolic steps offer it.
		if m.PollMiss {
			en2 := c.And(s.it.G, c.Or(anyReady...), c.Not(c.Or(anyReadyNoPartner...)))
			if !en2.IsFalse() {
				cands = append(cands, &Cand{Kind: "default", Miss: true, A: endpoint{it: s.it, op: s.op}, En: en2, Desc: "select default (partner not at its channel operation yet) " + m.itemDesc(s.it)})
			}
		}
	}
	// a non-blocking select whose partner is itself must not rendezvous with partner-less polls: handled by readiness.
	var out []*Cand
	for _, cd := range cands {
		if cd.En.IsFalse() {
			continue
		}
		out = append(out, cd)
	}
	return out
}

// ---- completing operations

func (m *Machine) advance(e endpoint, sel T) *Item {
	ni := &Item{G: sel, F: copyFrame(e.it.F), Gor: e.it.Gor, Clock: e.it.Clock + 1}
	return ni
}

// completeRecv stores the received value into the receiver's register(s) and advances pc.
func (m *Machine) completeRecv(ni *Item, e endpoint, val Value, ok T) {
	op := e.op
	f := ni.F
	switch op.Kind {
	case OpRecv:
		if op.CommaOk {
			f.regs[op.ResultReg] = Tuple{val, ok}
		} else {
			f.regs[op.ResultReg] = val
		}
	case OpSelect:
		m.setSelectResult(ni, op, e.caseIdx, val, ok)
	}
	f.pc++
}

func (m *Machine) setSelectResult(ni *Item, op *VisOp, idx int, val Value, ok T) {
	x := op.Instr.(*ssa.Select)
	tu := Tuple{m.IntC(int64(idx)), ok}
	for i, st := range x.States {
		if st.Dir == types.RecvOnly {
			et := st.Chan.Type().Underlying().(*types.Chan).Elem()
			if i == idx && val != nil {
				tu = append(tu, val)
			} else {
				tu = append(tu, m.ZeroValue(et))
			}
		}
	}
	ni.F.regs[op.ResultReg] = tu
}

func (m *Machine) completeSend(ni *Item, e endpoint) {
	if e.op.Kind == OpSelect {
		m.setSelectResult(ni, e.op, e.caseIdx, nil, m.C.False)
	}
	ni.F.pc++
}

// finishCallOp advances an item suspended at a call-based visible op.
func (m *Machine) finishCallOp(ni *Item, op *VisOp) {
	if op.Deferred {
		ni.F.defers = ni.F.defers[:len(ni.F.defers)-1]
		return // stay at RunDefers
	}
	ni.F.pc++
}

func (m *Machine) elemType(o *Object) types.Type { return o.T }

// execCand performs candidate cd under selector cd.Sel in the current (overlay) heap and runs the regions.
func (m *Machine) execCand(cd *Cand) {
	c := m.C
	sel := cd.Sel
	var items []*Item
	switch cd.Kind {
	case "rv":
		m.raceRendezvous(cd.A.it.Gor, cd.B.it.Gor)
		si := m.advance(cd.A, sel)
		ri := m.advance(cd.B, sel)
		m.completeSend(si, cd.A)
		m.completeRecv(ri, cd.B, cd.A.val, c.True)
		items = []*Item{si, ri}
	case "bsend":
		m.raceRelease(cd.A.it.Gor, cd.Obj)
		si := m.advance(cd.A, sel)
		o := cd.Obj
		_, ln, _ := m.chanState(o)
		for i := 0; i < o.Cap; i++ {
			g := c.And(sel, c.Eq(ln, m.IntC(int64(i))))
			if g.IsFalse() {
				continue
			}
			m.heap.Set(o, 3+i, m.Merge(g, cd.A.val, m.heap.Get(o, 3+i)))
		}
		if o.Cap > 0 {
			m.Oblige("bound", "buffered channel holds more messages than modelled slots", c.And(sel, m.sle(m.IntC(int64(o.Cap)), ln)), m.posOf(cd.A.it))
		}
		m.heap.Set(o, 1, m.Merge(sel, m.add(ln, m.IntC(1)), ln))
		m.completeSend(si, cd.A)
		items = []*Item{si}
	case "brecv":
		m.raceAcquire(cd.A.it.Gor, cd.Obj)
		ri := m.advance(cd.A, sel)
		o := cd.Obj
		_, ln, _ := m.chanState(o)
		val := m.heap.Get(o, 3)
		for i := 0; i+1 < o.Cap; i++ {
			m.heap.Set(o, 3+i, m.Merge(sel, m.heap.Get(o, 3+i+1), m.heap.Get(o, 3+i)))
		}
		m.heap.Set(o, 1, m.Merge(sel, m.sub(ln, m.IntC(1)), ln))
		m.completeRecv(ri, cd.A, val, c.True)
		items = []*Item{ri}
	case "rclosed":
		m.raceAcquire(cd.A.it.Gor, cd.Obj)
		ri := m.advance(cd.A, sel)
		m.completeRecv(ri, cd.A, m.ZeroValue(m.elemType(cd.Obj)), c.False)
		items = []*Item{ri}
	case "default":
		ni := m.advance(cd.A, sel)
		m.setSelectResult(ni, cd.A.op, -1, nil, c.False)
		ni.F.pc++
		items = []*Item{ni}
	case "close":
		ni := m.advance(cd.A, sel)
		op := cd.A.op
		m.obligePanic(ni, c.Not(m.ptrNonNil(op.Ch)), "close of nil channel")
		for _, a := range op.Ch.Alts {
			g := c.And(sel, a.G)
			if g.IsFalse() {
				continue
			}
			closed := m.heap.Get(a.Obj, 0).(T)
			m.Oblige("panic", "close of closed channel", c.And(g, closed), m.posOf(cd.A.it))
			m.raceRelease(cd.A.it.Gor, a.Obj)
			m.heap.Set(a.Obj, 0, c.Or(closed, g))
		}
		m.finishCallOp(ni, op)
		items = []*Item{ni}
	case "wgadd":
		ni := m.advance(cd.A, sel)
		op := cd.A.op
		if m.race != nil {
			m.race.off++
			for _, a := range op.Wg.Alts {
				m.raceRelease(cd.A.it.Gor, a.Obj)
			}
		}
		cnt := m.Load(ni, op.Wg, types.Typ[types.Int]).(T)
		nv := m.add(cnt, op.N)
		m.Oblige("panic", "sync: negative WaitGroup counter", c.And(sel, m.slt(nv, m.IntC(0))), m.posOf(cd.A.it))
		m.Store(ni, op.Wg, types.Typ[types.Int], nv)
		if m.race != nil {
			m.race.off--
		}
		m.finishCallOp(ni, op)
		items = []*Item{ni}
	case "wgwait", "yield":
		if m.race != nil && cd.Kind == "wgwait" {
			for _, a := range cd.A.op.Wg.Alts {
				m.raceAcquire(cd.A.it.Gor, a.Obj)
			}
		}
		ni := m.advance(cd.A, sel)
		m.finishCallOp(ni, cd.A.op)
		items = []*Item{ni}
	case "cancel":
		ni := m.advance(cd.A, sel)
		op := cd.A.op
		if m.race != nil {
			m.race.cur = cd.A.it.Gor
		}
		for _, a := range op.Cancel.Alts {
			g := c.And(sel, a.G)
			if g.IsFalse() {
				continue
			}
			m.cancelCtx(g, a.Binds[0].(Ptr))
		}
		m.finishCallOp(ni, op)
		items = []*Item{ni}
	default:
		m.fail("execCand kind %s", cd.Kind)
	}
	m.runRegion(items)
}

// runRegion runs items (of possibly several goroutines) until all are suspended/finished/dead.
func (m *Machine) runRegion(items []*Item) {
	m.wl = newWorklist()
	for _, it := range items {
		it.F = zeroIters(it.F)
		m.gwlAdd(it)
	}
	m.runWorklist(m.wl)
}

// ---- the step loop

// Run executes the harness function fn as the main goroutine.
func (m *Machine) Run(fn *ssa.Function) (err error) {
	defer func() {
		if r := recover(); r != nil {
			if ee, ok := r.(engineError); ok {
				err = fmt.Errorf("engine: %s", ee.msg)
				m.Err = err
				return
			}
			panic(r)
		}
	}()
	c := m.C
	if m.RaceDetect {
		m.raceInit()
	}
	main := m.newGor("main", c.True)
	m.MainGor = main
	m.step = 0
	it := &Item{G: c.True, Gor: main}
	m.enterFunction(it, fn, nil, nil, -1)
	m.susp = nil
	m.runRegion([]*Item{it})
	m.parkSuspended()
	for m.step = 1; m.step <= m.MaxSteps; m.step++ {
		if !m.Deadline.IsZero() && time.Now().After(m.Deadline) {
			m.fail("time budget of the symbolic execution exceeded at step %d", m.step)
		}
		cands := m.enumerate()
		nEnum := len(cands)
		if !m.NoPrune && m.Feasible != nil {
			var live []*Cand
			for _, cd := range cands {
				if m.Feasible(cd.En) {
					live = append(live, cd)
				}
			}
			cands = live
		}
		if m.Progress != nil {
			nalts := 0
			for _, g := range m.gors {
				nalts += len(g.Alts)
			}
			m.Progress(m.step, nEnum, len(cands), nalts, len(m.gors))
			if m.Trace2 {
				for _, g := range m.gors {
					if len(g.Alts) > 0 {
						var ks []string
						for _, it := range m.sortedAlts(g) {
							gs := m.C.StringDeep(it.G, 14)
							if len(gs) > 160 && os.Getenv("VCHECK_FULLGUARD") == "" {
								gs = gs[:160]
							}
							ks = append(ks, shortPos(m.posOf(it))+" if "+gs)
						}
						fmt.Printf("      g%d %s: %v\n", g.ID, g.Name, ks)
					}
				}
			}
		}
		if len(cands) == 0 {
			m.quiescent = true
			break
		}
		var ens []T
		for _, cd := range cands {
			ens = append(ens, cd.En)
		}
		anyEn := c.Or(ens...)
		info := StepInfo{Step: m.step, NCands: len(cands)}
		m.orderCands(cands)
		symbolic := !m.Deterministic
		if m.SymTo > 0 {
			symbolic = m.step >= m.SymFrom && m.step < m.SymTo
		}
		if !symbolic || len(cands) == 1 {
			var prev []T
			for _, cd := range cands {
				cd.Sel = c.And(cd.En, c.Not(c.Or(prev...)))
				prev = append(prev, cd.En)
			}
		} else {
			ch := c.Var(fmt.Sprintf("sched%d", m.step), m.intSort())
			info.Choice = ch
			var sels []T
			for i, cd := range cands {
				cd.Sel = c.And(cd.En, c.Eq(ch, m.IntC(int64(i))))
				sels = append(sels, cd.Sel)
			}
			m.Assume(c.Implies(anyEn, c.Or(sels...)), fmt.Sprintf("scheduler picks an enabled move at step %d", m.step))
		}
		// deadlock: main unfinished, nothing enabled
		m.deadlockAt(anyEn)
		base := m.heap
		var overlays []*Heap
		m.susp = nil
		for _, cd := range cands {
			info.Cands = append(info.Cands, cd.Kind+": "+cd.Desc)
			if m.Trace {
				fmt.Printf("step %d cand %s\n", m.step, cd.Desc)
			}
			ov := NewHeap(base)
			m.heap = ov
			m.execCand(cd)
			overlays = append(overlays, ov)
		}
		m.StepLog = append(m.StepLog, info)
		m.heap = base
		// retire participating alternatives
		used := map[*Item][]T{}
		for _, cd := range cands {
			used[cd.A.it] = append(used[cd.A.it], cd.Sel)
			if cd.B.it != nil {
				used[cd.B.it] = append(used[cd.B.it], cd.Sel)
			}
		}
		for it, sels := range used {
			it.G = c.And(it.G, c.Not(c.Or(sels...)))
			// an alternative whose remaining guard is unsatisfiable is dead: drop it (solver-decided)
			if !it.G.IsFalse() && !m.NoPrune && m.Feasible != nil && !m.Feasible(it.G) {
				it.G = c.False
			}
		}
		for _, g := range m.gors {
			for k, it := range g.Alts {
				if it.G.IsFalse() {
					delete(g.Alts, k)
				}
			}
		}
		m.commit(base, overlays, cands)
		m.parkSuspended()
	}
	m.finalObligations()
	return nil
}

func (m *Machine) deadlockAt(anyEn T) {
	c := m.C
	if m.MainGor == nil {
		return
	}
	v := c.And(c.Not(m.MainGor.Done), c.Not(anyEn))
	if !v.IsFalse() {
		m.Oblige("deadlock", fmt.Sprintf("no move enabled at step %d while the main goroutine has not finished", m.step), v, "")
	}
}

func (m *Machine) parkSuspended() {
	for _, it := range m.susp {
		if it.G.IsFalse() {
			continue
		}
		it.F = zeroIters(it.F)
		it.Since = m.step
		// alternatives are keyed by program point; the merged alternative carries the larger local clock
		// (clocks only name events: any value above every clock used so far on either history is sound)
		k := keyString(it.F.key())
		if m.ClockKeys {
			k = keyString(append([]int32{int32(it.Clock)}, it.F.key()...))
		}
		if old, ok := it.Gor.Alts[k]; ok {
			mi := m.mergeItems(old, it)
			if it.Clock > mi.Clock {
				mi.Clock = it.Clock
			}
			it.Gor.Alts[k] = mi
		} else {
			it.Gor.Alts[k] = it
		}
	}
	m.susp = nil
}

func (m *Machine) commit(base *Heap, overlays []*Heap, cands []*Cand) {
	for i, ov := range overlays {
		sel := cands[i].Sel
		// deterministic order
		objs := make([]*Object, 0, len(ov.cells))
		for o := range ov.cells {
			objs = append(objs, o)
		}
		sort.Slice(objs, func(a, b int) bool { return objs[a].ID < objs[b].ID })
		for _, o := range objs {
			cells := ov.cells[o]
			cur := base.lookup(o)
			if cur == nil {
				base.cells[o] = cells
				continue
			}
			own := base.own(o)
			for j, v := range cells {
				if j >= len(own) {
					own = append(own, v)
					continue
				}
				if sameValue(v, own[j]) {
					continue
				}
				own[j] = m.Merge(sel, v, own[j])
			}
			base.cells[o] = own
		}
	}
}

func sameValue(a, b Value) bool {
	switch x := a.(type) {
	case T:
		y, ok := b.(T)
		return ok && x == y
	}
	return false
}

func (m *Machine) finalObligations() {
	c := m.C
	if m.MainGor == nil {
		return
	}
	// moves still enabled at the bound?
	notDone := c.Not(m.MainGor.Done)
	if !notDone.IsFalse() {
		m.Oblige("unwind", fmt.Sprintf("main goroutine not finished within %d moves", m.MaxSteps), notDone, "")
	}
	// leak: at quiescence a library goroutine still parked at an operation nobody can complete
	if m.quiescent {
		for _, g := range m.gors {
			if g == m.MainGor || g.Env || strings.HasPrefix(g.Name, "v") {
				continue
			}
			for _, it := range m.sortedAlts(g) {
				if it.G.IsFalse() {
					continue
				}
				m.Oblige("leak", fmt.Sprintf("goroutine %s is still blocked at %s after every other goroutine has stopped", g.Name, shortPos(m.posOf(it))), c.And(it.G, m.MainGor.Done), m.posOf(it))
			}
		}
	} else {
		m.Notes = append(m.Notes, "move bound reached before quiescence: leak obligations not generated")
	}
}

// LeakObligation: a goroutine that is neither done nor an environment goroutine still exists with no move.
func (m *Machine) LiveGoroutines() []*Gor {
	var out []*Gor
	for _, g := range m.gors {
		if len(g.Alts) > 0 {
			out = append(out, g)
		}
	}
	return out
}

var _ = sym.SBool

// orderCands sorts candidates by the baseline scheduling policy (the priority used by deterministic steps).
func (m *Machine) orderCands(cands []*Cand) {
	rank := func(it *Item) int {
		if it == nil || it.Gor == nil {
			return 1 << 30
		}
		g := it.Gor
		env := g.Env || strings.HasPrefix(g.Name, "vm") || strings.HasPrefix(g.Name, "v")
		if strings.HasPrefix(g.Name, "vmNewTicker") && (m.Policy != "env-first" || it.Clock >= 3) {
			return 1 << 25 // time passes when nothing else can move (ticks are still subject to the fairness rule)
		}
		switch m.Policy {
		case "rev":
			return -g.ID
		case "env-first":
			if env {
				return g.ID - 1000
			}
			return g.ID
		case "env-last":
			if env {
				return g.ID + 1000
			}
			return g.ID
		case "main-last":
			if g == m.MainGor {
				return 1 << 20
			}
			return g.ID
		case "main-first":
			if g == m.MainGor {
				return -1
			}
			return g.ID
		}
		return g.ID
	}
	fair := m.Fairness
	if fair == 0 {
		fair = 10
	}
	slow := strings.Contains(m.Policy, "slowclock")
	pr := func(cd *Cand) int {
		r := rank(cd.A.it)
		since := cd.A.it.Since
		if cd.B.it != nil {
			if r2 := rank(cd.B.it); r2 > r {
				r = r2 // a rendezvous needs both parties: it is as urgent as its less urgent party
			}
			if cd.B.it.Since > since {
				since = cd.B.it.Since // enabled since both parties are parked
			}
		}
		// fairness: a move that has been enabled for a long time goes first (oldest first);
		// under a "slowclock" policy time only passes when nothing else can move
		isTick := func(it *Item) bool {
			return it != nil && it.Gor != nil && strings.HasPrefix(it.Gor.Name, "vmNewTicker")
		}
		if slow && (isTick(cd.A.it) || isTick(cd.B.it)) {
			return r
		}
		if age := m.step - since; age > fair {
			return -(1 << 40) - age
		}
		return r
	}
	sort.SliceStable(cands, func(i, j int) bool { return pr(cands[i]) < pr(cands[j]) })
	// competition for one endpoint (several senders for one receiver, several ready cases of one select) is
	// resolved in rotation: the alternative chosen least recently goes first (Go: FIFO wait queues, random select)
	groups := map[*Item][]int{}
	for i, cd := range cands {
		groups[cd.A.it] = append(groups[cd.A.it], i)
		if cd.B.it != nil {
			groups[cd.B.it] = append(groups[cd.B.it], i)
		}
	}
	for x, idxs := range groups {
		if len(idxs) < 2 {
			continue
		}
		sub := make([]*Cand, len(idxs))
		for k, i := range idxs {
			sub[k] = cands[i]
		}
		arrival := func(cd *Cand) int {
			// a waiting partner is served in arrival order (Go's channel wait queues are FIFO); alternatives
			// without a partner (closed channel, default) rotate by the time they were last taken
			if cd.B.it != nil {
				if cd.A.it == x {
					return cd.B.it.Since
				}
				return cd.A.it.Since
			}
			return m.lastChosen[m.choiceKey(x, cd)]
		}
		lifo := strings.HasSuffix(m.Policy, "lifo")
		if lifo {
			// newest arrival first, unless some alternative has been waiting longer than the fairness bound
			for _, cd := range sub {
				if m.step-arrival(cd) > fair {
					lifo = false
				}
			}
		}
		if lifo {
			sort.SliceStable(sub, func(a, b int) bool { return arrival(sub[a]) > arrival(sub[b]) })
		} else {
			sort.SliceStable(sub, func(a, b int) bool { return arrival(sub[a]) < arrival(sub[b]) })
		}
		for k, i := range idxs {
			cands[i] = sub[k]
		}
	}
	if strings.Contains(m.Policy, "pollmiss") {
		sort.SliceStable(cands, func(i, j int) bool { return cands[i].Miss && !cands[j].Miss })
	} else {
		sort.SliceStable(cands, func(i, j int) bool { return !cands[i].Miss && cands[j].Miss })
	}
	if len(cands) > 0 {
		first := cands[0]
		for _, cd := range cands {
			if cd.En.IsTrue() {
				first = cd
				break
			}
		}
		if m.lastChosen == nil {
			m.lastChosen = map[string]int{}
		}
		m.lastChosen[m.choiceKey(first.A.it, first)] = m.step
		if first.B.it != nil {
			m.lastChosen[m.choiceKey(first.B.it, first)] = m.step
		}
	}
}

// choiceKey names the alternative cd offers to endpoint x (its program point plus the partner / select case).
func (m *Machine) choiceKey(x *Item, cd *Cand) string {
	other, ci := -1, -1
	if cd.A.it == x {
		ci = cd.A.caseIdx
		if cd.B.it != nil {
			other = cd.B.it.Gor.ID
		}
	} else {
		ci = cd.B.caseIdx
		other = cd.A.it.Gor.ID
	}
	return fmt.Sprintf("%d|%s|%s|%d|%d", x.Gor.ID, keyString(x.F.key()), cd.Kind, ci, other)
}
