package exec

import (
	"fmt"
	"go/constant"
	"go/token"
	"go/types"
	"math/big"
	"strings"
	"unicode/utf8"

	"gosmt/sym"

	"golang.org/x/tools/go/ssa"
)

func constantBool(c *ssa.Const) bool     { return constant.BoolVal(c.Value) }
func constantString(c *ssa.Const) string { return constant.StringVal(c.Value) }
func bigFromUint64(u uint64) *big.Int    { return new(big.Int).SetUint64(u) }

func (m *Machine) constText(s string) Text {
	w := 0
	nl := 0
	for _, r := range s {
		switch {
		case r == '\n':
			nl++
		case r < 0x20 || r == 0x7f:
		case r >= 0x1100 && (r <= 0x115f || (r >= 0x2e80 && r <= 0xa4cf) || (r >= 0xac00 && r <= 0xd7a3) || (r >= 0xf900 && r <= 0xfaff) || (r >= 0xfe30 && r <= 0xfe6f) || (r >= 0xff00 && r <= 0xff60) || (r >= 0xffe0 && r <= 0xffe6)):
			w += 2
		default:
			w++
		}
	}
	_ = utf8.RuneCountInString
	if strings.Contains(s, "\x1b") {
		w = 0 // terminal control strings have no display width
	}
	id := m.IntC(0)
	if len(s) > 0 {
		id = m.textID("const:" + s)
	}
	lit := s
	return Text{W: m.IntC(int64(w)), N: m.IntC(int64(len(s))), NL: m.IntC(int64(nl)), CUU: m.IntC(0), ID: id, Lit: &lit}
}

// textID returns a distinct constant id per distinct key.
func (m *Machine) textID(key string) T {
	if m.textIDs == nil {
		m.textIDs = map[string]int64{}
	}
	id, ok := m.textIDs[key]
	if !ok {
		id = int64(len(m.textIDs) + 1)
		m.textIDs[key] = id
	}
	return m.IntC(id)
}

func (m *Machine) FreshText(hint string) Text {
	c := m.C
	s := m.intSort()
	t := Text{W: m.Fresh(hint+".w", s), N: m.Fresh(hint+".n", s), NL: m.IntC(0), CUU: m.IntC(0), ID: m.Fresh(hint+".id", s)}
	z := m.IntC(0)
	m.Assume(c.And(m.sle(z, t.W), m.sle(z, t.N), m.sle(t.W, m.IntC(1<<20)), m.sle(t.N, m.IntC(1<<22)),
		c.Implies(c.Eq(t.N, z), c.Eq(t.W, z)), m.slt(m.IntC(1<<40), t.ID)), "text "+hint+": 0<=width, 0<=len, len=0 => width=0")
	return t
}

func (m *Machine) Concat(a, b Text) Text {
	c := m.C
	z := m.IntC(0)
	id := c.Ite(c.Eq(a.N, z), b.ID, c.Ite(c.Eq(b.N, z), a.ID, c.UF("cat", m.intSort(), a.ID, b.ID)))
	var lit *string
	if a.Lit != nil && b.Lit != nil {
		l := *a.Lit + *b.Lit
		lit = &l
		if l != "" {
			id = m.textID("const:" + l)
		}
	}
	as, ak := m.seqOf(a)
	bs, bk := m.seqOf(b)
	seq := as
	if k, ok := bk.Int64(); ok && k >= 0 && k < 14 {
		pow := int64(1)
		for i := int64(0); i < k; i++ {
			pow *= 16
		}
		seq = m.add(c.Bin(sym.OpMul, as, m.IntC(pow)), bs)
	} else {
		// symbolic number of marks in the suffix: case split over the small range that occurs (0..12)
		var acc T = c.UF("seqcat", m.intSort(), as, bs, bk)
		pow := int64(1)
		var pows []int64
		for i := 0; i <= 12; i++ {
			pows = append(pows, pow)
			pow *= 16
		}
		for i := 12; i >= 0; i-- {
			acc = c.Ite(c.Eq(bk, m.IntC(int64(i))), m.add(c.Bin(sym.OpMul, as, m.IntC(pows[i])), bs), acc)
		}
		seq = acc
	}
	return Text{m.add(a.W, b.W), m.add(a.N, b.N), m.add(a.NL, b.NL), m.add(a.CUU, b.CUU), id, lit, seq, m.add(ak, bk)}
}

func (m *Machine) add(a, b T) T { return m.C.Bin(sym.OpAdd, a, b) }
func (m *Machine) sub(a, b T) T { return m.C.Bin(sym.OpSub, a, b) }
func (m *Machine) slt(a, b T) T { return m.C.Cmp(sym.OpSlt, a, b) }
func (m *Machine) sle(a, b T) T { return m.C.Cmp(sym.OpSle, a, b) }

type intInfo struct {
	bits     int
	unsigned bool
}

func intInfoOf(t types.Type) (intInfo, bool) {
	b, ok := t.Underlying().(*types.Basic)
	if !ok || b.Info()&types.IsInteger == 0 {
		return intInfo{}, false
	}
	switch b.Kind() {
	case types.Int8:
		return intInfo{8, false}, true
	case types.Int16:
		return intInfo{16, false}, true
	case types.Int32:
		return intInfo{32, false}, true
	case types.Int, types.Int64, types.UntypedInt, types.UntypedRune:
		return intInfo{64, false}, true
	case types.Uint8:
		return intInfo{8, true}, true
	case types.Uint16:
		return intInfo{16, true}, true
	case types.Uint32:
		return intInfo{32, true}, true
	case types.Uint, types.Uint64, types.Uintptr:
		return intInfo{64, true}, true
	}
	return intInfo{64, false}, true
}

func rangeOf(ii intInfo) (lo, hi *big.Int) {
	one := big.NewInt(1)
	if ii.unsigned {
		return big.NewInt(0), new(big.Int).Sub(new(big.Int).Lsh(one, uint(ii.bits)), one)
	}
	h := new(big.Int).Lsh(one, uint(ii.bits-1))
	return new(big.Int).Neg(h), new(big.Int).Sub(h, one)
}

// normInt brings the result of an operation on type t back into range.
// bv mode: truncate/sign-extend narrow types. int mode: wrap obligation.
func (m *Machine) normInt(it *Item, t types.Type, v T, what string) T {
	ii, ok := intInfoOf(t)
	if !ok {
		return v
	}
	c := m.C
	if m.IntMode {
		if m.inHarness(it) {
			return v // harness arithmetic is exact (the oracle computes in unbounded integers)
		}
		lo, hi := rangeOf(ii)
		in := c.And(c.Cmp(sym.OpSle, c.IntBig(lo), v), c.Cmp(sym.OpSle, v, c.IntBig(hi)))
		if !in.IsTrue() {
			m.Oblige("wrap", what+" overflows "+t.String(), c.And(it.G, c.Not(in)), m.posOf(it))
			// the Int encoding is only faithful without wrap-around: the wrap is reported above, the rest assumes none
			m.AssumeUnder(it.G, in, "no wrap-around after the reported check at "+shortPos(m.posOf(it)))
		}
		return v
	}
	if ii.bits == 64 {
		return v
	}
	sh := c.BV(uint64(64 - ii.bits))
	if ii.unsigned {
		return c.Bin(sym.OpLShr, c.Bin(sym.OpShl, v, sh), sh)
	}
	return c.Bin(sym.OpAShr, c.Bin(sym.OpShl, v, sh), sh)
}

func (m *Machine) binop(it *Item, x *ssa.BinOp) Value {
	f := it.F
	a, b := m.val(f, x.X), m.val(f, x.Y)
	c := m.C
	t := x.X.Type()
	switch av := a.(type) {
	case Text:
		bv := b.(Text)
		switch x.Op {
		case token.ADD:
			return m.Concat(av, bv)
		case token.EQL:
			return m.textEq(av, bv)
		case token.NEQ:
			return c.Not(m.textEq(av, bv))
		}
		m.fail("unsupported string op %v", x.Op)
	case Ptr:
		eq := m.PtrEq(av, b.(Ptr))
		if x.Op == token.EQL {
			return eq
		}
		return c.Not(eq)
	case Iface:
		eq := m.ifaceEq(av, b.(Iface))
		if x.Op == token.EQL {
			return eq
		}
		return c.Not(eq)
	case FuncV:
		// only comparison with nil is legal
		bv := b.(FuncV)
		var eq T
		if len(bv.Alts) == 0 {
			eq = c.Not(m.funcNonNil(av))
		} else if len(av.Alts) == 0 {
			eq = c.Not(m.funcNonNil(bv))
		} else {
			m.fail("func comparison")
		}
		if x.Op == token.EQL {
			return eq
		}
		return c.Not(eq)
	case SliceV:
		bv := b.(SliceV)
		var eq T
		if len(bv.Base.Alts) == 0 {
			eq = c.Not(m.ptrNonNil(av.Base))
		} else {
			eq = c.Not(m.ptrNonNil(bv.Base))
		}
		if x.Op == token.EQL {
			return eq
		}
		return c.Not(eq)
	case StructV, ArrayV:
		eq := m.valueEq(a, b)
		if x.Op == token.EQL {
			return eq
		}
		return c.Not(eq)
	case T:
		bv := b.(T)
		// a merged value read through a type assertion that fails on this path (fields of another struct type at
		// the same offsets) can pair a bool with an int: the path is infeasible, coerce instead of stopping
		if av.Sort == sym.SBool && bv.Sort != sym.SBool {
			bv = c.Not(c.Eq(bv, m.zeroOfSort(bv)))
		} else if bv.Sort == sym.SBool && av.Sort != sym.SBool {
			av = c.Not(c.Eq(av, m.zeroOfSort(av)))
		}
		if av.Sort == sym.SBool {
			switch x.Op {
			case token.EQL:
				return c.Eq(av, bv)
			case token.NEQ:
				return c.Not(c.Eq(av, bv))
			case token.AND:
				return c.And(av, bv)
			case token.OR:
				return c.Or(av, bv)
			}
			m.fail("bool op %v", x.Op)
		}
		if av.Sort == sym.SReal || av.Sort == sym.SFP {
			return m.floatBinop(it, x.Op, av, bv)
		}
		ii, _ := intInfoOf(t)
		// shifts: y may have a different type; bring to same sort (both are int sort already)
		switch x.Op {
		case token.ADD:
			return m.normInt(it, x.Type(), c.Bin(sym.OpAdd, av, bv), "addition")
		case token.SUB:
			return m.normInt(it, x.Type(), c.Bin(sym.OpSub, av, bv), "subtraction")
		case token.MUL:
			return m.normInt(it, x.Type(), c.Bin(sym.OpMul, av, bv), "multiplication")
		case token.QUO:
			m.obligePanic(it, c.Eq(bv, m.IntC(0)), "integer divide by zero")
			if ii.unsigned {
				if m.IntMode && !bv.IsConst() && !av.IsConst() {
					// symbolic / symbolic over the integers: the defining relation (and the obvious lemma for a
					// dividend below the divisor) instead of the solver's div, which it does not decide in time
					q, r := m.Fresh("quo", sym.SInt), m.Fresh("rem", sym.SInt)
					z := m.IntC(0)
					pos := m.slt(z, bv)
					m.Assume(c.Implies(pos, c.And(c.Eq(av, m.add(c.Bin(sym.OpMul, q, bv), r)), m.sle(z, r), m.slt(r, bv), m.sle(z, q), m.sle(q, av))),
						"unsigned division: dividend = quotient*divisor + remainder, 0 <= remainder < divisor")
					m.Assume(c.Implies(c.And(pos, m.sle(z, av), m.slt(av, bv)), c.Eq(q, z)), "unsigned division: a dividend below the divisor gives 0")
					return q
				}
				return c.Bin(sym.OpUDiv, av, bv)
			}
			return m.normInt(it, x.Type(), c.Bin(sym.OpSDiv, av, bv), "division")
		case token.REM:
			m.obligePanic(it, c.Eq(bv, m.IntC(0)), "integer divide by zero")
			if ii.unsigned {
				return c.Bin(sym.OpURem, av, bv)
			}
			return c.Bin(sym.OpSRem, av, bv)
		case token.AND:
			return m.bitAnd(av, bv)
		case token.OR:
			return m.bitOp(sym.OpBOr, av, bv)
		case token.XOR:
			return m.bitOp(sym.OpBXor, av, bv)
		case token.AND_NOT:
			if m.IntMode {
				m.fail("&^ in int mode")
			}
			return c.Bin(sym.OpBAnd, av, c.BNot(bv))
		case token.SHL:
			if m.IntMode {
				if k, ok := bv.Int64(); ok && k >= 0 && k < 63 {
					return m.normInt(it, x.Type(), c.Bin(sym.OpMul, av, c.IntBig(new(big.Int).Lsh(big.NewInt(1), uint(k)))), "shift")
				}
				// symbolic count: x * 2^k with 2^k an ite chain over k = 0..63 (k >= 64 shifts everything out)
				m.obligePanic(it, m.slt(bv, m.IntC(0)), "negative shift amount")
				res := T(m.IntC(0))
				for k := 63; k >= 0; k-- {
					res = c.Ite(c.Eq(bv, m.IntC(int64(k))), c.Bin(sym.OpMul, av, c.IntBig(new(big.Int).Lsh(big.NewInt(1), uint(k)))), res)
				}
				return m.normInt(it, x.Type(), res, "shift")
			}
			return m.normInt(it, x.Type(), c.Bin(sym.OpShl, av, bv), "shift")
		case token.SHR:
			if m.IntMode {
				if k, ok := bv.Int64(); ok && k >= 0 && k < 63 {
					d := c.IntBig(new(big.Int).Lsh(big.NewInt(1), uint(k)))
					return c.Bin(sym.OpUDiv, av, d) // floor division == arithmetic shift
				}
				m.obligePanic(it, m.slt(bv, m.IntC(0)), "negative shift amount")
				var res T
				if ii.unsigned {
					res = m.IntC(0)
				} else {
					res = c.Ite(m.slt(av, m.IntC(0)), m.IntC(-1), m.IntC(0))
				}
				for k := 63; k >= 0; k-- {
					res = c.Ite(c.Eq(bv, m.IntC(int64(k))), c.Bin(sym.OpUDiv, av, c.IntBig(new(big.Int).Lsh(big.NewInt(1), uint(k)))), res)
				}
				return res
			}
			if ii.unsigned {
				return c.Bin(sym.OpLShr, av, bv)
			}
			return c.Bin(sym.OpAShr, av, bv)
		case token.EQL:
			return c.Eq(av, bv)
		case token.NEQ:
			return c.Not(c.Eq(av, bv))
		case token.LSS:
			return m.icmp(ii, sym.OpSlt, av, bv)
		case token.LEQ:
			return m.icmp(ii, sym.OpSle, av, bv)
		case token.GTR:
			return m.icmp(ii, sym.OpSlt, bv, av)
		case token.GEQ:
			return m.icmp(ii, sym.OpSle, bv, av)
		}
	}
	m.fail("unsupported binop %v on %T (%v)", x.Op, a, t)
	return nil
}

func (m *Machine) icmp(ii intInfo, op sym.Op, a, b T) T {
	if ii.unsigned && !m.IntMode {
		if op == sym.OpSlt {
			op = sym.OpUlt
		} else {
			op = sym.OpUle
		}
	}
	return m.C.Cmp(op, a, b)
}

func (m *Machine) bitAnd(a, b T) T {
	c := m.C
	if !m.IntMode {
		return c.Bin(sym.OpBAnd, a, b)
	}
	if a.IsConst() && b.IsConst() {
		return c.Bin(sym.OpBAnd, a, b)
	}
	// int mode: mask must be a constant power of two (flag test); value assumed non-negative
	if a.IsConst() {
		a, b = b, a
	}
	k, ok := b.Int64()
	if !ok || k <= 0 {
		m.fail("bit-and with non-constant mask in int mode")
	}
	// decompose mask into bits
	res := c.Int(0)
	for bit := int64(1); bit <= k; bit <<= 1 {
		if k&bit != 0 {
			isSet := c.Eq(c.Bin(sym.OpURem, c.Bin(sym.OpUDiv, a, c.Int(bit)), c.Int(2)), c.Int(1))
			res = c.Bin(sym.OpAdd, res, c.Ite(isSet, c.Int(bit), c.Int(0)))
		}
	}
	m.Assumptions["int mode: operands of & are non-negative"] = true
	return res
}

func (m *Machine) bitOp(op sym.Op, a, b T) T {
	if m.IntMode {
		if a.IsConst() && b.IsConst() {
			return m.C.Bin(op, a, b)
		}
		m.fail("bit operation %v on symbolic operands in int mode", op)
	}
	return m.C.Bin(op, a, b)
}

func (m *Machine) textEq(a, b Text) T {
	c := m.C
	return c.And(c.Eq(a.N, b.N), c.Or(c.Eq(a.N, m.IntC(0)), c.Eq(a.ID, b.ID)))
}

func (m *Machine) ifaceEq(a, b Iface) T {
	c := m.C
	var hits []T
	for _, x := range a.Alts {
		for _, y := range b.Alts {
			if x.S != y.S || !sameType(x.T, y.T) {
				continue
			}
			hits = append(hits, c.And(x.G, y.G, m.valueEq(x.V, y.V)))
		}
	}
	bothNil := c.And(c.Not(m.ifaceNonNil(a)), c.Not(m.ifaceNonNil(b)))
	return c.Or(append(hits, bothNil)...)
}

func (m *Machine) valueEq(a, b Value) T {
	c := m.C
	switch x := a.(type) {
	case T:
		return c.Eq(x, b.(T))
	case Ptr:
		return m.PtrEq(x, b.(Ptr))
	case Text:
		return m.textEq(x, b.(Text))
	case Iface:
		return m.ifaceEq(x, b.(Iface))
	case StructV:
		y := b.(StructV)
		var cs []T
		for i := range x.F {
			cs = append(cs, m.valueEq(x.F[i], y.F[i]))
		}
		return c.And(cs...)
	case ArrayV:
		y := b.(ArrayV)
		var cs []T
		for i := range x.E {
			cs = append(cs, m.valueEq(x.E[i], y.E[i]))
		}
		return c.And(cs...)
	case nil:
		return c.True
	}
	m.fail("valueEq on %T", a)
	return nil
}

// ---- floats

var ulp = new(big.Rat).SetFrac(big.NewInt(1), new(big.Int).Lsh(big.NewInt(1), 53))

// signOf asks the pruning solver for the sign of a real term under guard g: +1 (>=0), -1 (<=0), 0 unknown.
func (m *Machine) signOf(g T, x T) int {
	c := m.C
	zero := c.Real(big.NewRat(0, 1))
	if x.IsConst() {
		if x.Rat.Sign() >= 0 {
			return 1
		}
		return -1
	}
	if m.Feasible == nil {
		return 0
	}
	if !m.Feasible(c.And(g, c.Cmp(sym.OpSlt, x, zero))) {
		return 1
	}
	if !m.Feasible(c.And(g, c.Cmp(sym.OpSlt, zero, x))) {
		return -1
	}
	return 0
}

// approx introduces r with |r - exact| <= |exact| * 2^-53 (IEEE standard model) in int mode.
func (m *Machine) approx(it *Item, exact T, hint string) T {
	c := m.C
	if exact.IsConst() {
		f, _ := exact.Rat.Float64()
		return c.RealF(f)
	}
	// the same exact value is rounded the same way every time (fl is a function)
	mk := hint + "#" + fmt.Sprint(exact.ID)
	if r, ok := m.approxMemo[mk]; ok {
		m.AssumeUnder(it.G, m.approxBody[mk], "IEEE-754 standard model: fl(x) = x(1+d), |d| <= 2^-53")
		return r
	}
	r := m.Fresh(hint, sym.SReal)
	u := c.Real(ulp)
	one := c.Real(big.NewRat(1, 1))
	zero := c.Real(big.NewRat(0, 1))
	lo := c.Bin(sym.OpMul, exact, c.Bin(sym.OpSub, one, u))
	hi := c.Bin(sym.OpMul, exact, c.Bin(sym.OpAdd, one, u))
	posF := c.And(c.Cmp(sym.OpSle, lo, r), c.Cmp(sym.OpSle, r, hi))
	negF := c.And(c.Cmp(sym.OpSle, hi, r), c.Cmp(sym.OpSle, r, lo))
	var body T
	switch m.signOf(it.G, exact) {
	case 1:
		body = posF
	case -1:
		body = negF
	default:
		body = c.Ite(c.Cmp(sym.OpSle, zero, exact), posF, negF)
	}
	m.AssumeUnder(it.G, body, "IEEE-754 standard model: fl(x) = x(1+d), |d| <= 2^-53")
	m.approxBody[mk] = c.Ite(c.Cmp(sym.OpSle, zero, exact), posF, negF)
	m.Assumptions["floats abstracted to reals with the IEEE-754 standard model (relative error 2^-53 per operation, no overflow/underflow)"] = true
	// rounding is monotone: x <= y implies fl(x) <= fl(y) (same operation kind)
	for _, p := range m.approxList[hint] {
		m.Assume(c.And(c.Implies(c.Cmp(sym.OpSle, p.exact, exact), c.Cmp(sym.OpSle, p.r, r)), c.Implies(c.Cmp(sym.OpSle, exact, p.exact), c.Cmp(sym.OpSle, r, p.r))), "IEEE-754 rounding is monotone")
	}
	if len(m.approxList[hint]) < 6 {
		m.approxList[hint] = append(m.approxList[hint], approxRec{exact, r})
	}
	m.approxMemo[mk] = r
	return r
}

type approxRec struct{ exact, r T }

func (m *Machine) floatBinop(it *Item, op token.Token, a, b T) Value {
	c := m.C
	if a.Sort == sym.SFP {
		switch op {
		case token.ADD:
			return c.Bin(sym.OpAdd, a, b)
		case token.SUB:
			return c.Bin(sym.OpSub, a, b)
		case token.MUL:
			return c.Bin(sym.OpMul, a, b)
		case token.QUO:
			return c.Bin(sym.OpRDiv, a, b)
		case token.EQL:
			return c.Eq(a, b)
		case token.NEQ:
			return c.Not(c.Eq(a, b))
		case token.LSS:
			return c.Cmp(sym.OpSlt, a, b)
		case token.LEQ:
			return c.Cmp(sym.OpSle, a, b)
		case token.GTR:
			return c.Cmp(sym.OpSlt, b, a)
		case token.GEQ:
			return c.Cmp(sym.OpSle, b, a)
		}
		m.fail("fp op %v", op)
	}
	zero := c.Real(big.NewRat(0, 1))
	if m.inHarness(it) {
		// harness float arithmetic is exact real arithmetic (the oracle is not subject to rounding)
		switch op {
		case token.ADD:
			return c.Bin(sym.OpAdd, a, b)
		case token.SUB:
			return c.Bin(sym.OpSub, a, b)
		case token.MUL:
			return c.Bin(sym.OpMul, a, b)
		case token.QUO:
			return c.Bin(sym.OpRDiv, a, b)
		}
	}
	switch op {
	case token.ADD:
		return m.approx(it, c.Bin(sym.OpAdd, a, b), "fadd")
	case token.SUB:
		return m.approx(it, c.Bin(sym.OpSub, a, b), "fsub")
	case token.MUL:
		return m.approx(it, c.Bin(sym.OpMul, a, b), "fmul")
	case token.QUO:
		dz := c.Eq(b, zero)
		if !dz.IsFalse() {
			m.Oblige("fpexc", "float division by zero (Inf/NaN)", c.And(it.G, dz), m.posOf(it))
		}
		if a.IsConst() && b.IsConst() && b.Rat.Sign() != 0 {
			return m.approx(it, c.Bin(sym.OpRDiv, a, b), "fdiv")
		}
		// q*b within a(1±u)
		q := m.Fresh("fdiv", sym.SReal)
		u := c.Real(ulp)
		one := c.Real(big.NewRat(1, 1))
		lo := c.Bin(sym.OpMul, a, c.Bin(sym.OpSub, one, u))
		hi := c.Bin(sym.OpMul, a, c.Bin(sym.OpAdd, one, u))
		qb := c.Bin(sym.OpMul, q, b)
		up := c.And(c.Cmp(sym.OpSle, lo, qb), c.Cmp(sym.OpSle, qb, hi))
		down := c.And(c.Cmp(sym.OpSle, hi, qb), c.Cmp(sym.OpSle, qb, lo))
		g := c.And(it.G, c.Not(dz))
		var body T
		sa, sb := m.signOf(g, a), m.signOf(g, b)
		switch {
		case sa == 1:
			// a>=0: lo<=hi
			body = up
			if sb == 1 {
				body = c.And(up, c.Cmp(sym.OpSle, zero, q))
			}
		case sa == -1:
			body = down
		default:
			body = c.Or(up, down)
		}
		m.AssumeUnder(g, body, "IEEE-754 standard model for division")
		for _, p := range m.divList {
			if p.b == b && sb == 1 {
				m.Assume(c.And(c.Implies(c.Cmp(sym.OpSle, p.a, a), c.Cmp(sym.OpSle, p.q, q)), c.Implies(c.Cmp(sym.OpSle, a, p.a), c.Cmp(sym.OpSle, q, p.q))), "IEEE-754 division is monotone in the dividend (same positive divisor)")
			}
		}
		if len(m.divList) < 6 {
			m.divList = append(m.divList, divRec{a, b, q})
		}
		m.Assumptions["floats abstracted to reals with the IEEE-754 standard model (relative error 2^-53 per operation, no overflow/underflow)"] = true
		return q
	case token.EQL:
		return c.Eq(a, b)
	case token.NEQ:
		return c.Not(c.Eq(a, b))
	case token.LSS:
		return c.Cmp(sym.OpSlt, a, b)
	case token.LEQ:
		return c.Cmp(sym.OpSle, a, b)
	case token.GTR:
		return c.Cmp(sym.OpSlt, b, a)
	case token.GEQ:
		return c.Cmp(sym.OpSle, b, a)
	}
	m.fail("float op %v", op)
	return nil
}

// RoundReal: math.Round on the real abstraction (exact: half away from zero), relational encoding.
func (m *Machine) RoundReal(it *Item, r T) T {
	c := m.C
	if r.IsConst() {
		half := c.Real(big.NewRat(1, 2))
		if r.Rat.Sign() >= 0 {
			return c.Un(sym.OpToReal, sym.SReal, c.Un(sym.OpToInt, sym.SInt, c.Bin(sym.OpAdd, r, half)))
		}
		return c.Neg(c.Un(sym.OpToReal, sym.SReal, c.Un(sym.OpToInt, sym.SInt, c.Bin(sym.OpAdd, c.Neg(r), half))))
	}
	half := c.Real(big.NewRat(1, 2))
	zero := c.Real(big.NewRat(0, 1))
	k := m.Fresh("round", sym.SInt)
	kr := c.Un(sym.OpToReal, sym.SReal, k)
	// x>=0: x-1/2 < k <= x+1/2 ; x<0: x-1/2 <= k < x+1/2
	posF := c.And(c.Cmp(sym.OpSlt, c.Bin(sym.OpSub, r, half), kr), c.Cmp(sym.OpSle, kr, c.Bin(sym.OpAdd, r, half)))
	negF := c.And(c.Cmp(sym.OpSle, c.Bin(sym.OpSub, r, half), kr), c.Cmp(sym.OpSlt, kr, c.Bin(sym.OpAdd, r, half)))
	var body T
	switch m.signOf(it.G, r) {
	case 1:
		body = posF
	case -1:
		body = c.Ite(c.Eq(r, zero), c.Eq(k, c.Int(0)), negF)
	default:
		body = c.Ite(c.Cmp(sym.OpSle, zero, r), posF, negF)
	}
	m.AssumeUnder(it.G, body, "math.Round = nearest integer, ties away from zero")
	return kr
}

func (m *Machine) convert(it *Item, x *ssa.Convert) Value {
	v := m.val(it.F, x.X)
	from, to := x.X.Type(), x.Type()
	c := m.C
	if isTextType(from) && isTextType(to) {
		return v
	}
	fi, fromInt := intInfoOf(from)
	ti, toInt := intInfoOf(to)
	fb, _ := from.Underlying().(*types.Basic)
	tb, _ := to.Underlying().(*types.Basic)
	fromFloat := fb != nil && fb.Info()&types.IsFloat != 0
	toFloat := tb != nil && tb.Info()&types.IsFloat != 0
	switch {
	case fromInt && toInt:
		t := v.(T)
		if m.IntMode && fi.bits == ti.bits && fi.unsigned != ti.unsigned {
			// same-width signed <-> unsigned conversion is defined (two's complement): modelled exactly
			mod := c.IntBig(new(big.Int).Lsh(big.NewInt(1), uint(ti.bits)))
			if ti.unsigned {
				neg := c.Cmp(sym.OpSlt, t, c.Int(0))
				if neg.IsFalse() || (m.Feasible != nil && !m.Feasible(c.And(it.G, neg))) {
					return t
				}
				return c.Ite(neg, c.Bin(sym.OpAdd, t, mod), t)
			}
			half := c.IntBig(new(big.Int).Lsh(big.NewInt(1), uint(ti.bits-1)))
			big_ := c.Cmp(sym.OpSle, half, t)
			if big_.IsFalse() || (m.Feasible != nil && !m.Feasible(c.And(it.G, big_))) {
				return t
			}
			return c.Ite(big_, c.Bin(sym.OpSub, t, mod), t)
		}
		if m.IntMode {
			lo, hi := rangeOf(ti)
			in := c.And(c.Cmp(sym.OpSle, c.IntBig(lo), t), c.Cmp(sym.OpSle, t, c.IntBig(hi)))
			if !in.IsTrue() && !m.inHarness(it) {
				m.Oblige("wrap", fmt.Sprintf("conversion %v -> %v changes the value", from, to), c.And(it.G, c.Not(in)), m.posOf(it))
				m.AssumeUnder(it.G, in, "conversion in range after the reported check at "+shortPos(m.posOf(it)))
			}
			return t
		}
		_ = fi
		return m.normInt(it, to, t, "conversion")
	case fromInt && toFloat:
		t := v.(T)
		if m.IntMode && m.inHarness(it) {
			return c.Un(sym.OpToReal, sym.SReal, t)
		}
		if m.IntMode {
			ex := c.Un(sym.OpToReal, sym.SReal, t)
			if t.IsConst() {
				return m.approx(it, ex, "itof")
			}
			r := m.approx(it, ex, "itof")
			// exact below 2^53
			lim := c.IntBig(new(big.Int).Lsh(big.NewInt(1), 53))
			small := c.And(c.Cmp(sym.OpSle, c.Neg(lim), t), c.Cmp(sym.OpSle, t, lim))
			m.AssumeUnder(c.And(it.G, small), c.Eq(r, ex), "int->float exact for |x| <= 2^53")
			return r
		}
		if fi.unsigned {
			return c.Un(sym.OpFPOfU, sym.SFP, t)
		}
		return c.Un(sym.OpFPOfS, sym.SFP, t)
	case fromFloat && toInt:
		t := v.(T)
		if m.IntMode {
			zero := c.Real(big.NewRat(0, 1))
			tr := c.Ite(c.Cmp(sym.OpSle, zero, t), c.Un(sym.OpToInt, sym.SInt, t), c.Neg(c.Un(sym.OpToInt, sym.SInt, c.Neg(t))))
			lo, hi := rangeOf(ti)
			in := c.And(c.Cmp(sym.OpSle, c.IntBig(lo), tr), c.Cmp(sym.OpSle, tr, c.IntBig(hi)))
			if !in.IsTrue() && !m.inHarness(it) {
				m.Oblige("wrap", fmt.Sprintf("float -> %v conversion out of range", to), c.And(it.G, c.Not(in)), m.posOf(it))
				m.AssumeUnder(it.G, in, "conversion in range after the reported check at "+shortPos(m.posOf(it)))
			}
			return tr
		}
		if t.Op == sym.OpFPOfS && !ti.unsigned && ti.bits == 64 {
			// int -> float64 -> int round trip is exact for |x| <= 2^53 (checked as an obligation)
			x := t.Args[0]
			lim := c.BV(1 << 53)
			out := c.Or(c.Cmp(sym.OpSlt, lim, x), c.Cmp(sym.OpSlt, x, c.Neg(lim)))
			if !out.IsFalse() {
				m.Oblige("wrap", "int->float64->int round trip beyond 2^53", c.And(it.G, out), m.posOf(it))
			}
			return x
		}
		if ti.unsigned {
			return c.Un(sym.OpFPToU, sym.SBV, t)
		}
		return m.normInt(it, to, c.Un(sym.OpFPToS, sym.SBV, t), "conversion")
	case fromFloat && toFloat:
		return v
	case fromInt && isString(to):
		return m.FreshText("runestr")
	}
	m.fail("unsupported conversion %v -> %v", from, to)
	return nil
}

// inHarness: the innermost frame is harness code (function name starts with "v" in a repository package).
func (m *Machine) inHarness(it *Item) bool {
	fn := it.F.fi.Fn
	for fn.Parent() != nil {
		fn = fn.Parent()
	}
	return len(fn.Name()) > 1 && fn.Name()[0] == 'v' && fn.Name()[1] >= 'a' && fn.Name()[1] <= 'z' && fn.Pkg != nil
}

type divRec struct{ a, b, q T }

func (m *Machine) zeroOfSort(t T) T {
	if t.Sort == sym.SInt || m.IntMode {
		return m.IntC(0)
	}
	return m.C.BV(0)
}
