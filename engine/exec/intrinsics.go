package exec

import (
	"fmt"
	"go/types"
	"math/big"
	"os"
	"sort"
	"strings"

	"gosmt/sym"

	"golang.org/x/tools/go/ssa"
)

type Intrinsic func(m *Machine, wl *worklist, it *Item, fn *ssa.Function, args []Value, resultReg int) bool

// inline wraps a pure handler.
func inline(h func(m *Machine, it *Item, args []Value) Value) Intrinsic {
	return func(m *Machine, wl *worklist, it *Item, fn *ssa.Function, args []Value, resultReg int) bool {
		res := h(m, it, args)
		m.finishInline(it, resultReg, res)
		return false
	}
}

// Redirect is the exported form of redirect (per-harness contract stubs).
func Redirect(model string) Intrinsic { return redirect(model) }

// redirect calls a Go model function from the overlay (package mpb) instead.
func redirect(model string) Intrinsic {
	return func(m *Machine, wl *worklist, it *Item, fn *ssa.Function, args []Value, resultReg int) bool {
		mf := m.lookupRepoFunc(model)
		if mf == nil {
			m.fail("model function %s not found in overlay (needed for %s)", model, fn)
		}
		return m.callFunction(wl, it, mf, args, nil, resultReg)
	}
}

// lookupRepoFuncIn finds a model function in the given package of the repository (nil if absent).
func (m *Machine) lookupRepoFuncIn(pkgPath, name string) *ssa.Function {
	for _, p := range m.Prog.AllPackages() {
		if p.Pkg.Path() == pkgPath {
			return p.Func(name)
		}
	}
	return nil
}

func pkgOfCaller(it *Item) string {
	fn := it.F.fi.Fn
	for fn.Parent() != nil {
		fn = fn.Parent()
	}
	if fn.Pkg != nil {
		return fn.Pkg.Pkg.Path()
	}
	return ""
}

func (m *Machine) lookupRepoFunc(name string) *ssa.Function {
	for _, p := range m.Prog.AllPackages() {
		if p.Pkg.Path() == m.RepoPrefix {
			if f := p.Func(name); f != nil {
				return f
			}
		}
	}
	return nil
}

func visibleIntrinsic(m *Machine, wl *worklist, it *Item, fn *ssa.Function, args []Value, resultReg int) bool {
	m.suspend(it, nil)
	return true
}

func (m *Machine) nilErr() Value { return Iface{} }

func (m *Machine) newError(tag string) Iface {
	id := m.IntC(int64(1000 + m.eventID("err:"+tag)))
	return Iface{[]IfaceAlt{{G: m.C.True, S: "error", V: id}}}
}

func (m *Machine) namedError(name string) Iface {
	if v, ok := m.synthG[name]; ok {
		return v.(Iface)
	}
	v := m.newError(name)
	m.synthG[name] = v
	return v
}

func (m *Machine) bufText(it *Item, b Ptr) Text {
	return m.Load(it, b, types.Typ[types.String]).(Text)
}
func (m *Machine) setBufText(it *Item, b Ptr, t Text) {
	m.Store(it, b, types.Typ[types.String], t)
}

func (m *Machine) lookupType(pkg, name string) types.Type {
	for _, p := range m.Prog.AllPackages() {
		if p.Pkg.Path() == pkg {
			if o := p.Pkg.Scope().Lookup(name); o != nil {
				return o.Type()
			}
		}
	}
	m.fail("type %s.%s not found", pkg, name)
	return nil
}

// drain empties a reader value and returns its content.
func (m *Machine) drain(it *Item, r Iface) Text {
	res := m.EmptyText()
	first := true
	for _, a := range r.Alts {
		g := m.C.And(it.G, a.G)
		if g.IsFalse() {
			continue
		}
		sub := &Item{G: g, F: it.F, Gor: it.Gor}
		var t Text
		ts := ""
		if a.T != nil {
			ts = a.T.String()
		}
		switch ts {
		case "*bytes.Buffer", "*strings.Reader", "*bytes.Reader":
			p := a.V.(Ptr)
			t = m.bufText(sub, p)
			m.setBufText(sub, p, m.EmptyText())
		case "*io.multiReader":
			p := a.V.(Ptr)
			st := a.T.(*types.Pointer).Elem().Underlying().(*types.Struct)
			slT := st.Field(0).Type()
			sl := m.Load(sub, p, slT).(SliceV)
			vals := m.possibleInts(sub, sl.Len)
			if len(vals) == 0 {
				if m.Feasible != nil && !m.Feasible(sub.G) {
					// this alternative cannot happen under the current path condition
					t = m.EmptyText()
					break
				}
				m.fail("drain: multiReader with unbounded symbolic part count: len=%s", m.C.String(sl.Len))
			}
			n := vals[len(vals)-1]
			t = m.EmptyText()
			et := slT.Underlying().(*types.Slice).Elem()
			for i := int64(0); i < n; i++ {
				gi := m.C.And(g, m.slt(m.IntC(i), sl.Len))
				if gi.IsFalse() {
					continue
				}
				si := &Item{G: gi, F: it.F, Gor: it.Gor, Clock: it.Clock}
				ep := m.offsetPtr(si, sl.Base, m.IntC(i), 1, sl.Len)
				part := m.Load(si, ep, et).(Iface)
				d := m.Concat(t, m.drain(si, part))
				t = m.Merge(m.slt(m.IntC(i), sl.Len), d, t).(Text)
			}
			m.Store(sub, p, slT, SliceV{Ptr{}, m.IntC(0), m.IntC(0)})
		default:
			m.fail("drain: unsupported reader %s / %s", ts, a.S)
		}
		if first {
			res = t
			first = false
		} else {
			res = m.Merge(a.G, t, res).(Text)
		}
	}
	return res
}

func registerIntrinsics(m *Machine) {
	I := m.Intrinsics
	c := m.C
	// ---- sync / context
	I["(*sync.WaitGroup).Add"] = visibleIntrinsic
	I["(*sync.WaitGroup).Done"] = visibleIntrinsic
	I["(*sync.WaitGroup).Wait"] = visibleIntrinsic
	I["(*sync.Mutex).Lock"] = inline(func(m *Machine, it *Item, a []Value) Value { return nil })
	I["(*sync.Mutex).Unlock"] = inline(func(m *Machine, it *Item, a []Value) Value { return nil })
	I["context.Background"] = inline(func(m *Machine, it *Item, a []Value) Value {
		return m.newCtx(it, nil, false)
	})
	I["context.WithCancel"] = inline(func(m *Machine, it *Item, a []Value) Value {
		parent := a[0].(Iface)
		ctx := m.newCtx(it, &parent, true)
		cancel := FuncV{[]FuncAlt{{G: c.True, Builtin: "ctxcancel", Binds: []Value{ctx.Alts[0].V}}}}
		return Tuple{ctx, cancel}
	})
	I["runtime.GOMAXPROCS"] = inline(func(m *Machine, it *Item, a []Value) Value {
		m.Assumptions["runtime.GOMAXPROCS(0) returns 1 (one processor; every fourth native replay attempt runs with GOMAXPROCS=1)"] = true
		return m.IntC(1)
	})
	// ---- time
	I["time.Now"] = inline(func(m *Machine, it *Item, a []Value) Value {
		tt := m.lookupType("time", "Time")
		v := m.ZeroValue(tt).(StructV)
		now := m.Fresh("now", m.intSort())
		if m.lastNow != nil {
			m.Assume(m.sle(m.lastNow, now), "clock is non-decreasing")
		} else {
			m.Assume(m.sle(m.IntC(0), now), "clock is non-negative")
		}
		m.lastNow = now
		v.F[1] = now
		return v
	})
	I["time.Since"] = inline(func(m *Machine, it *Item, a []Value) Value {
		if m.SinceFixed != nil {
			m.logGhost("time.Since", m.SinceFixed)
			return m.SinceFixed
		}
		d := m.Fresh("since", m.intSort())
		lo := int64(0)
		if m.SincePositive {
			lo = 1
			m.Assumptions["the clock advances by at least 1ns between the start time of a decorator and a later time.Since (elapsed time is never exactly zero)"] = true
		}
		m.Assume(c.And(m.sle(m.IntC(lo), d), m.sle(d, m.IntC(1<<62))), "time.Since returns a non-negative duration")
		m.logGhost("time.Since", d)
		return d
	})
	I["(time.Duration).Truncate"] = inline(func(m *Machine, it *Item, a []Value) Value {
		d, q := a[0].(T), a[1].(T)
		if m.IntMode {
			// d - d % q for q > 0 (truncation toward zero)
			return m.sub(d, c.Bin(sym.OpSRem, d, q))
		}
		return m.sub(d, c.Bin(sym.OpSRem, d, q))
	})
	I["(time.Duration).String"] = inline(func(m *Machine, it *Item, a []Value) Value {
		t := m.FreshText("durstr")
		m.logGhost("Duration.String", a[0].(T))
		return t
	})
	I["time.NewTicker"] = redirect("vmNewTicker")
	I["(*time.Ticker).Stop"] = redirect("vmTickerStop")
	// ---- bytes.Buffer and readers
	I["bytes.NewBuffer"] = inline(func(m *Machine, it *Item, a []Value) Value {
		o := m.NewObject(m.lookupType("bytes", "Buffer"), "bytes.NewBuffer")
		p := single(o, 0, c)
		m.setBufText(it, p, a[0].(Text))
		return p
	})
	I["(*bytes.Buffer).WriteString"] = inline(func(m *Machine, it *Item, a []Value) Value {
		p, s := a[0].(Ptr), a[1].(Text)
		m.setBufText(it, p, m.Concat(m.bufText(it, p), s))
		return Tuple{s.N, m.nilErr()}
	})
	I["(*bytes.Buffer).Write"] = I["(*bytes.Buffer).WriteString"]
	I["(*bytes.Buffer).Reset"] = inline(func(m *Machine, it *Item, a []Value) Value {
		m.setBufText(it, a[0].(Ptr), m.EmptyText())
		return nil
	})
	I["(*bytes.Buffer).String"] = inline(func(m *Machine, it *Item, a []Value) Value {
		return m.bufText(it, a[0].(Ptr))
	})
	I["(*bytes.Buffer).Bytes"] = I["(*bytes.Buffer).String"]
	I["(*bytes.Buffer).Len"] = inline(func(m *Machine, it *Item, a []Value) Value {
		return m.bufText(it, a[0].(Ptr)).N
	})
	I["(*bytes.Buffer).ReadFrom"] = inline(func(m *Machine, it *Item, a []Value) Value {
		p := a[0].(Ptr)
		t := m.drain(it, a[1].(Iface))
		m.setBufText(it, p, m.Concat(m.bufText(it, p), t))
		return Tuple{t.N, m.nilErr()}
	})
	I["(*bytes.Buffer).WriteTo"] = redirect("vmBufferWriteTo")
	I["(*bytes.Buffer).ReadBytes"] = inline(func(m *Machine, it *Item, a []Value) Value {
		p := a[0].(Ptr)
		cur := m.bufText(it, p)
		hasLine := m.slt(m.IntC(0), cur.NL)
		line := m.FreshText("line")
		m.Assume(c.Implies(hasLine, c.And(m.sle(line.W, cur.W), m.sle(line.N, cur.N), m.slt(m.IntC(0), line.N))), "ReadBytes returns a prefix of the buffer")
		line.NL = m.IntC(1)
		rest := Text{W: m.sub(cur.W, line.W), N: m.sub(cur.N, line.N), NL: m.sub(cur.NL, m.IntC(1)), CUU: cur.CUU, ID: c.UF("rest", m.intSort(), cur.ID)}
		m.setBufText(it, p, m.Merge(hasLine, rest, m.EmptyText()).(Text))
		out := m.Merge(hasLine, line, cur)
		err := m.Merge(hasLine, m.nilErr(), m.namedError("io.EOF"))
		return Tuple{out, err}
	})
	I["strings.NewReader"] = inline(func(m *Machine, it *Item, a []Value) Value {
		o := m.NewObject(m.lookupType("strings", "Reader"), "strings.NewReader")
		p := single(o, 0, c)
		m.setBufText(it, p, a[0].(Text))
		return p
	})
	I["bytes.NewReader"] = inline(func(m *Machine, it *Item, a []Value) Value {
		o := m.NewObject(m.lookupType("bytes", "Reader"), "bytes.NewReader")
		p := single(o, 0, c)
		m.setBufText(it, p, a[0].(Text))
		return p
	})
	I["strings.Repeat"] = inline(func(m *Machine, it *Item, a []Value) Value {
		s, n := a[0].(Text), a[1].(T)
		m.obligePanic(it, m.slt(n, m.IntC(0)), "strings.Repeat: negative count")
		mul := func(x T) T { return c.Bin(sym.OpMul, x, n) }
		return Text{W: mul(s.W), N: mul(s.N), NL: mul(s.NL), CUU: m.IntC(0), ID: c.UF("rep", m.intSort(), s.ID, n)}
	})
	I["io.MultiReader"] = inline(func(m *Machine, it *Item, a []Value) Value {
		mrT := m.lookupType("io", "multiReader")
		o := m.NewObject(mrT, "io.MultiReader")
		p := single(o, 0, c)
		st := mrT.Underlying().(*types.Struct)
		m.Store(it, p, st.Field(0).Type(), a[0])
		return Iface{[]IfaceAlt{{G: c.True, T: types.NewPointer(mrT), V: p}}}
	})
	I["io.Copy"] = inline(func(m *Machine, it *Item, a []Value) Value {
		dst := a[0].(Iface)
		for _, al := range dst.Alts {
			if al.S != "discard" {
				// reached only on a path the harness has excluded (guard unsatisfiable together with the
				// assumptions): nothing to model; otherwise an engine limit
				if m.Feasible != nil && !m.Feasible(c.And(it.G, al.G)) {
					continue
				}
				m.fail("io.Copy to non-Discard writer is not modelled")
			}
		}
		t := m.drain(it, a[1].(Iface))
		return Tuple{t.N, m.nilErr()}
	})
	// ---- text width
	rw := "github.com/mattn/go-runewidth."
	I[rw+"StringWidth"] = inline(func(m *Machine, it *Item, a []Value) Value { return a[0].(Text).W })
	I[rw+"Truncate"] = inline(func(m *Machine, it *Item, a []Value) Value {
		s, w, tail := a[0].(Text), a[1].(T), a[2].(Text)
		fits := m.sle(s.W, w)
		r := m.FreshText("trunc")
		// result = prefix + tail, prefix width <= w - tail.W when that is >= 0
		room := m.sub(w, tail.W)
		m.Assume(c.And(m.sle(tail.W, r.W), c.Implies(m.sle(m.IntC(0), room), m.sle(r.W, w)), c.Implies(m.slt(room, m.IntC(0)), c.Eq(r.W, tail.W)), m.sle(r.N, m.add(s.N, tail.N))),
			"runewidth.Truncate: result is a prefix plus the tail, width <= w when the tail fits")
		return m.Merge(fits, s, r)
	})
	fill := func(m *Machine, it *Item, a []Value) Value {
		s, w := a[0].(Text), a[1].(T)
		pad := c.Ite(m.slt(s.W, w), m.sub(w, s.W), m.IntC(0))
		return Text{W: m.add(s.W, pad), N: m.add(s.N, pad), NL: s.NL, CUU: s.CUU, ID: c.Ite(c.Eq(pad, m.IntC(0)), s.ID, c.UF("pad", m.intSort(), s.ID, pad))}
	}
	I[rw+"FillLeft"] = inline(fill)
	I[rw+"FillRight"] = inline(fill)
	I["github.com/acarl005/stripansi.Strip"] = inline(func(m *Machine, it *Item, a []Value) Value {
		s := a[0].(Text)
		r := m.FreshText("strip")
		m.Assume(c.And(c.Eq(r.W, s.W), m.sle(r.N, s.N), c.Implies(c.Eq(s.N, m.IntC(0)), c.Eq(r.N, m.IntC(0)))), "stripansi.Strip keeps the display width")
		r.NL = s.NL
		return r
	})
	// ---- formatting
	I["fmt.Sprintf"] = func(m *Machine, wl *worklist, it *Item, fn *ssa.Function, args []Value, resultReg int) bool {
		if mf := m.lookupRepoFuncIn(pkgOfCaller(it), "vmSprintf"); mf != nil {
			return m.callFunction(wl, it, mf, args, nil, resultReg)
		}
		m.finishInline(it, resultReg, m.FreshText("sprintf"))
		return false
	}
	I["strconv.FormatInt"] = inline(func(m *Machine, it *Item, a []Value) Value { return m.FreshText("formatint") })
	I["fmt.Errorf"] = inline(func(m *Machine, it *Item, a []Value) Value { return m.newError("fmt.Errorf") })
	I["errors.New"] = inline(func(m *Machine, it *Item, a []Value) Value { return m.newError("errors.New") })
	I["fmt.Fprintln"] = redirect("vmFprintln")
	I["strconv.AppendInt"] = inline(func(m *Machine, it *Item, a []Value) Value {
		b, v := a[0].(Text), a[1].(T)
		if k, ok := v.Int64(); ok {
			// concrete number: concrete digit count
			n := int64(len(fmt.Sprint(k)))
			d := Text{W: m.IntC(0), N: m.IntC(n), NL: m.IntC(0), CUU: v, ID: m.textID(fmt.Sprintf("int:%d", k))}
			m.Assumptions["strconv.AppendInt is only used to build the cursor-up escape sequence (its digits have no display width)"] = true
			if m.MarkCUU {
				d.SEQ, d.K = m.IntC(15), m.IntC(1)
			}
			return m.Concat(b, d)
		}
		d := m.FreshText("digits")
		m.Assume(c.And(m.sle(m.IntC(1), d.N), m.sle(d.N, m.IntC(20))), "strconv.AppendInt appends 1..20 digits")
		d.W = m.IntC(0) // only used inside the cursor-up escape sequence: no display width
		m.Assumptions["strconv.AppendInt is only used to build the cursor-up escape sequence (its digits have no display width)"] = true
		d.CUU = v
		if m.MarkCUU {
			d.SEQ, d.K = m.IntC(15), m.IntC(1)
		}
		return m.Concat(b, d)
	})
	I["strconv.AppendFloat"] = inline(func(m *Machine, it *Item, a []Value) Value {
		b := a[0].(Text)
		d := m.FreshText("float")
		m.Assume(c.And(m.sle(m.IntC(1), d.N), c.Eq(d.W, d.N)), "strconv.AppendFloat appends at least one byte")
		m.ghostLog = append(m.ghostLog, ghostRec{it.G, "putf:appendfloat.value", []Value{a[1]}},
			ghostRec{it.G, "put:appendfloat.verb", []Value{a[2]}}, ghostRec{it.G, "put:appendfloat.prec", []Value{a[3]}})
		return m.Concat(b, d)
	})
	// ---- math
	I["math.Round"] = inline(func(m *Machine, it *Item, a []Value) Value {
		x := a[0].(T)
		if m.IntMode {
			return m.RoundReal(it, x)
		}
		return c.Un(sym.OpFPRna, sym.SFP, x)
	})
	I["math.IsInf"] = inline(func(m *Machine, it *Item, a []Value) Value {
		if m.IntMode {
			m.Assumptions["int mode: no float overflow, math.IsInf is false (division by zero is reported separately)"] = true
			return c.False
		}
		return c.Un(sym.OpFPIsInf, sym.SBool, a[0].(T))
	})
	I["math.IsNaN"] = inline(func(m *Machine, it *Item, a []Value) Value {
		if m.IntMode {
			return c.False
		}
		return c.Un(sym.OpFPIsNaN, sym.SBool, a[0].(T))
	})
	two64 := new(big.Int).Lsh(big.NewInt(1), 64)
	I["math/bits.Mul64"] = inline(func(m *Machine, it *Item, a []Value) Value {
		if !m.IntMode {
			m.fail("math/bits.Mul64 is only modelled in int mode")
		}
		p := c.Bin(sym.OpMul, a[0].(T), a[1].(T))
		t := c.IntBig(two64)
		return Tuple{c.Bin(sym.OpUDiv, p, t), c.Bin(sym.OpURem, p, t)}
	})
	I["math/bits.Div64"] = inline(func(m *Machine, it *Item, a []Value) Value {
		if !m.IntMode {
			m.fail("math/bits.Div64 is only modelled in int mode")
		}
		hi, lo, y := a[0].(T), a[1].(T), a[2].(T)
		m.obligePanic(it, m.sle(y, hi), "math/bits.Div64: quotient overflow or division by zero")
		n := m.add(c.Bin(sym.OpMul, hi, c.IntBig(two64)), lo)
		// q, r with n = q*y + r, 0 <= r < y  (relational: avoids non-linear div)
		q := m.Fresh("div64q", sym.SInt)
		r := m.Fresh("div64r", sym.SInt)
		m.AssumeUnder(c.And(it.G, m.slt(hi, y)), c.And(c.Eq(n, m.add(c.Bin(sym.OpMul, q, y), r)), m.sle(m.IntC(0), r), m.slt(r, y), m.sle(m.IntC(0), q)), "math/bits.Div64: n = q*y + r, 0 <= r < y")
		return Tuple{q, r}
	})
	// bits.Len64 / bits.Len (int mode: the operand is a mathematical integer in [0, 2^64)): an ite chain over the
	// 64 powers of two
	lenOf := func(m *Machine, x T, bitsN int) T {
		res := m.IntC(0)
		for k := 1; k <= bitsN; k++ {
			pow := c.IntBig(new(big.Int).Lsh(big.NewInt(1), uint(k-1)))
			res = c.Ite(m.sle(pow, x), m.IntC(int64(k)), res)
		}
		return res
	}
	for _, nm := range []string{"Len64", "Len", "Len32"} {
		n := 64
		if nm == "Len32" {
			n = 32
		}
		nn := n
		I["math/bits."+nm] = inline(func(m *Machine, it *Item, a []Value) Value {
			if !m.IntMode {
				m.fail("math/bits.Len* is only modelled in int mode")
			}
			return lenOf(m, a[0].(T), nn)
		})
	}
	I["math/bits.LeadingZeros64"] = inline(func(m *Machine, it *Item, a []Value) Value {
		if !m.IntMode {
			m.fail("math/bits.LeadingZeros64 is only modelled in int mode")
		}
		return m.sub(m.IntC(64), lenOf(m, a[0].(T), 64))
	})
	// ---- terminal
	cw := "github.com/vbauerster/mpb/v8/cwriter."
	I[cw+"IsTerminal"] = inline(func(m *Machine, it *Item, a []Value) Value { return c.False })
	I["(*os.File).Fd"] = inline(func(m *Machine, it *Item, a []Value) Value { return m.IntC(1) })
}

// ---- ghost log: (tag, values...) records inspected by harness oracles through vGhost* vocabulary

type ghostRec struct {
	g    T
	tag  string
	vals []Value
}

func (m *Machine) logGhost(tag string, v T) {
	m.ghostLog = append(m.ghostLog, ghostRec{m.C.True, tag, []Value{v}})
}
func (m *Machine) logGhostV(tag string, vs []Value) {
	m.ghostLog = append(m.ghostLog, ghostRec{m.C.True, tag, vs})
}

// ---- contexts

func (m *Machine) newCtx(it *Item, parent *Iface, cancellable bool) Iface {
	c := m.C
	var done Value = Ptr{}
	if cancellable {
		ch := m.NewChan(it, types.NewStruct(nil, nil), m.IntC(0), "ctx.done")
		done = single(ch, 0, c)
	}
	o := m.canonObject(Object{Kind: KCtx, Site: "ctx", Name: "ctx"}, []Value{done})
	if parent != nil {
		for _, a := range parent.Alts {
			if a.S != "ctx" {
				m.fail("context.WithCancel on non-modelled context")
			}
			for _, pa := range a.V.(Ptr).Alts {
				dup := false
				for _, ch := range pa.Obj.Children {
					if ch == o {
						dup = true
					}
				}
				if !dup {
					pa.Obj.Children = append(pa.Obj.Children, o)
				}
				// a child of an already cancelled parent is born cancelled
				pd := m.heap.Get(pa.Obj, 0).(Ptr)
				for _, pda := range pd.Alts {
					closed := m.heap.Get(pda.Obj, 0).(T)
					if !closed.IsFalse() && cancellable {
						dch := done.(Ptr).Alts[0].Obj
						m.heap.Set(dch, 0, c.Or(m.heap.Get(dch, 0).(T), c.And(it.G, a.G, pa.G, pda.G, closed)))
					}
				}
			}
		}
	}
	return Iface{[]IfaceAlt{{G: c.True, S: "ctx", V: single(o, 0, c)}}}
}

func (m *Machine) cancelCtx(g T, p Ptr) {
	c := m.C
	for _, a := range p.Alts {
		gg := c.And(g, a.G)
		if gg.IsFalse() {
			continue
		}
		m.cancelObj(gg, a.Obj)
	}
}

func (m *Machine) cancelObj(g T, o *Object) {
	c := m.C
	done := m.heap.Get(o, 0).(Ptr)
	for _, d := range done.Alts {
		if m.race != nil {
			m.raceRelease(m.race.cur, d.Obj)
		}
		closed := m.heap.Get(d.Obj, 0).(T)
		m.heap.Set(d.Obj, 0, c.Or(closed, c.And(g, d.G)))
	}
	for _, ch := range o.Children {
		if m.heap.lookup(ch) == nil {
			continue // child context created on another (exclusive) branch of this step
		}
		m.cancelObj(g, ch)
	}
}

func (m *Machine) callBuiltinClosure(wl *worklist, it *Item, a FuncAlt, args []Value, resultReg int) bool {
	switch a.Builtin {
	case "ctxcancel":
		m.suspend(it, nil)
		return true
	}
	m.fail("unknown builtin closure %s", a.Builtin)
	return false
}

// ---- synthetic interface values

func (m *Machine) synthImplements(a IfaceAlt, it *types.Interface) bool {
	names := map[string][]string{
		"ctx":     {"Done", "Err", "Deadline", "Value"},
		"discard": {"Write", "WriteString", "ReadFrom"},
		"error":   {"Error"},
	}
	have := map[string]bool{}
	for _, n := range names[a.S] {
		have[n] = true
	}
	for i := 0; i < it.NumMethods(); i++ {
		if !have[it.Method(i).Name()] {
			return false
		}
	}
	return true
}

func (m *Machine) synthMethod(wl *worklist, it *Item, a IfaceAlt, name string, args []Value, resultReg int) bool {
	c := m.C
	var res Value
	switch a.S + "." + name {
	case "ctx.Done":
		res = m.Load(it, a.V.(Ptr), types.NewChan(types.RecvOnly, types.NewStruct(nil, nil)))
	case "ctx.Err":
		res = m.nilErr()
	case "discard.Write", "discard.WriteString":
		res = Tuple{args[0].(Text).N, m.nilErr()}
	case "error.Error":
		id := a.V.(T)
		t := m.FreshText("errmsg")
		t.ID = c.UF("errtext", m.intSort(), id)
		res = t
	default:
		m.fail("method %s on synthetic %s not modelled", name, a.S)
	}
	m.finishInline(it, resultReg, res)
	return false
}

// ---- builtins

func (m *Machine) builtin(it *Item, b *ssa.Builtin, cc *ssa.CallCommon, args []Value) Value {
	c := m.C
	switch b.Name() {
	case "len":
		switch x := args[0].(type) {
		case Text:
			return x.N
		case SliceV:
			return x.Len
		case Ptr:
			if len(x.Alts) > 0 && x.Alts[0].Obj.Kind == KMap {
				return m.mapLen(x)
			}
			if len(x.Alts) == 0 {
				return m.IntC(0)
			}
			if x.Alts[0].Obj.Kind == KChan {
				var res T = m.IntC(0)
				for _, a := range x.Alts {
					res = c.Ite(a.G, m.heap.Get(a.Obj, 1).(T), res)
				}
				return res
			}
		case ArrayV:
			return m.IntC(int64(len(x.E)))
		}
		m.fail("len of %T", args[0])
	case "cap":
		switch x := args[0].(type) {
		case SliceV:
			return x.Cap
		case Text:
			return x.N
		case Ptr:
			if len(x.Alts) == 0 {
				return m.IntC(0)
			}
			if x.Alts[0].Obj.Kind == KChan {
				var res T = m.IntC(0)
				for _, a := range x.Alts {
					res = c.Ite(a.G, m.heap.Get(a.Obj, 2).(T), res)
				}
				return res
			}
		}
		m.fail("cap of %T", args[0])
	case "append":
		return m.appendOp(it, cc, args)
	case "copy":
		if d, ok := args[0].(Text); ok {
			s := args[1].(Text)
			return c.Ite(m.slt(d.N, s.N), d.N, s.N)
		}
		m.fail("copy on non-byte slices not modelled")
	case "delete":
		m.mapDelete(it, args[0].(Ptr), args[1])
		return nil
	case "ssa:wrapnilchk":
		m.obligePanic(it, c.Not(m.ptrNonNil(args[0].(Ptr))), "nil receiver in method wrapper")
		return args[0]
	case "min", "max":
		a, bb := args[0].(T), args[1].(T)
		lt := m.slt(a, bb)
		if b.Name() == "min" {
			return c.Ite(lt, a, bb)
		}
		return c.Ite(lt, bb, a)
	case "print", "println":
		return nil
	}
	m.fail("builtin %s not modelled", b.Name())
	return nil
}

func (m *Machine) appendOp(it *Item, cc *ssa.CallCommon, args []Value) Value {
	c := m.C
	if a, ok := args[0].(Text); ok {
		return m.Concat(a, args[1].(Text))
	}
	s := args[0].(SliceV)
	var add SliceV
	switch x := args[1].(type) {
	case SliceV:
		add = x
	default:
		m.fail("append of %T", args[1])
	}
	n, ok := add.Len.Int64()
	if !ok {
		m.fail("append with symbolic number of new elements")
	}
	if n == 0 {
		return s
	}
	et := cc.Args[0].Type().Underlying().(*types.Slice).Elem()
	esz := cellCount(et)
	// gather new elements
	var elems []Value
	for j := int64(0); j < n; j++ {
		ep := m.offsetPtr(it, add.Base, m.IntC(j), esz, add.Len)
		elems = append(elems, m.Load(it, ep, et))
	}
	sl, slOK := s.Len.Int64()
	sc, scOK := s.Cap.Int64()
	nilBase := len(s.Base.Alts) == 0
	if slOK && scOK {
		if !nilBase && sl+n <= sc {
			for j, e := range elems {
				ep := m.offsetPtr(it, s.Base, m.IntC(sl+int64(j)), esz, m.IntC(sc))
				m.Store(it, ep, et, e)
			}
			return SliceV{s.Base, m.IntC(sl + n), s.Cap}
		}
		// reallocate (faithful to Go: fresh backing array, copy)
		nc := 2 * (sl + n)
		if nc < int64(m.SliceCap) {
			nc = int64(m.SliceCap)
		}
		o := m.NewArray(et, int(nc), "append@"+m.posOf(it))
		nb := single(o, 0, c)
		for j := int64(0); j < sl; j++ {
			sp := m.offsetPtr(it, s.Base, m.IntC(j), esz, s.Len)
			m.Store(it, m.offsetPtr(it, nb, m.IntC(j), esz, m.IntC(nc)), et, m.Load(it, sp, et))
		}
		for j, e := range elems {
			m.Store(it, m.offsetPtr(it, nb, m.IntC(sl+int64(j)), esz, m.IntC(nc)), et, e)
		}
		return SliceV{nb, m.IntC(sl + n), m.IntC(nc)}
	}
	// symbolic length/capacity: case-split on the feasible concrete (len, cap) pairs
	if m.appendDepth == 0 {
		lens := m.possibleInts(it, s.Len)
		if len(lens) > 0 && len(lens) <= 12 {
			m.appendDepth++
			defer func() { m.appendDepth-- }()
			var res Value
			for i := len(lens) - 1; i >= 0; i-- {
				gk := c.Eq(s.Len, m.IntC(lens[i]))
				sub := &Item{G: c.And(it.G, gk), F: it.F, Gor: it.Gor, Clock: it.Clock}
				sk := m.Restrict(sub.G, s).(SliceV)
				sk.Len = m.IntC(lens[i])
				if _, ok := sk.Cap.Int64(); !ok {
					caps := m.possibleInts(sub, sk.Cap)
					if len(caps) == 1 {
						sk.Cap = m.IntC(caps[0])
					} else if len(sk.Base.Alts) == 0 {
						sk.Cap = m.IntC(0)
					}
				}
				r := m.appendOp(sub, cc, []Value{sk, args[1]})
				if res == nil {
					res = r
				} else {
					res = m.Merge(gk, r, res)
				}
			}
			return res
		}
	}
	if nilBase {
		m.fail("append to nil slice with symbolic length")
	}
	m.Assumptions["append on a slice of symbolic length writes in place (no reallocation; capacity overflow is a bound obligation)"] = true
	for j, e := range elems {
		pos := m.add(s.Len, m.IntC(int64(j)))
		for _, a := range s.Base.Alts {
			maxN := (m.heap.NumCells(a.Obj) - a.Off) / max1(esz)
			m.Oblige("bound", "append exceeds modelled slice capacity", c.And(it.G, a.G, m.sle(m.IntC(int64(maxN)), pos)), m.posOf(it))
			for i := 0; i < maxN; i++ {
				g := c.And(a.G, c.Eq(pos, m.IntC(int64(i))))
				if c.And(it.G, g).IsFalse() {
					continue
				}
				m.Store(&Item{G: c.And(it.G, g), F: it.F, Gor: it.Gor}, Ptr{[]PtrAlt{{c.True, a.Obj, a.Off + i*esz}}}, et, e)
			}
		}
	}
	nl := m.add(s.Len, m.IntC(n))
	ncap := c.Ite(m.slt(s.Cap, nl), nl, s.Cap)
	return SliceV{s.Base, nl, ncap}
}

// ---- globals

func (m *Machine) globalObj(g *ssa.Global) *Object {
	if o, ok := m.globals[g]; ok {
		return o
	}
	et := g.Type().Underlying().(*types.Pointer).Elem()
	o := m.NewObject(et, "global "+g.String())
	m.globals[g] = o
	// base heap: globals must be visible from every overlay
	root := m.heap
	for root.parent != nil {
		root = root.parent
	}
	if root != m.heap {
		root.cells[o] = m.heap.cells[o]
		delete(m.heap.cells, o)
	}
	name := g.String()
	c := m.C
	switch {
	case name == "io.Discard":
		root.cells[o][0] = Iface{[]IfaceAlt{{G: c.True, S: "discard"}}}
	case name == "os.Stdout" || name == "os.Stderr":
		fo := m.NewObject(m.lookupType("os", "File"), name)
		root.cells[o][0] = single(fo, 0, c)
	case strings.HasPrefix(name, "io.Err") || name == "io.EOF" || name == "context.Canceled":
		root.cells[o][0] = m.namedError(name)
	case g.Pkg != nil && strings.HasPrefix(g.Pkg.Pkg.Path(), m.RepoPrefix):
		// initialised by the package's init, run at machine start
	default:
		if _, isIface := et.Underlying().(*types.Interface); isIface && strings.Contains(name, "Err") {
			root.cells[o][0] = m.namedError(name)
		} else {
			m.Notes = append(m.Notes, fmt.Sprintf("external global %s read as zero value", name))
		}
	}
	return o
}

// possibleInts returns the sorted constant values t can take under it.G, decided by the pruning solver over
// the constant leaves of t's ite tree (nil if t has non-constant leaves or too many).
func (m *Machine) possibleInts(it *Item, t T) []int64 {
	if k, ok := t.Int64(); ok {
		return []int64{k}
	}
	t = m.Restrict(it.G, t).(T)
	if k, ok := t.Int64(); ok {
		return []int64{k}
	}
	seen := map[int64]bool{}
	visited := map[int]bool{}
	okAll := true
	var walk func(x T)
	walk = func(x T) {
		if !okAll || visited[x.ID] {
			return
		}
		visited[x.ID] = true
		if k, ok := x.Int64(); ok {
			seen[k] = true
			return
		}
		if x.Op != sym.OpIte || len(visited) > 5000 || len(seen) > 64 {
			okAll = false
			return
		}
		walk(x.Args[1])
		walk(x.Args[2])
	}
	walk(t)
	if !okAll {
		// not a tree of constants (sums of guarded values, ...): enumerate a small range with the solver
		if m.Feasible == nil {
			if os.Getenv("VCHECK_DEBUG") != "" {
				fmt.Fprintln(os.Stderr, "possibleInts: no solver")
			}
			return nil
		}
		const hi = 12
		c := m.C
		if m.Feasible(c.And(it.G, c.Or(m.slt(t, m.IntC(0)), m.slt(m.IntC(hi), t)))) {
			if os.Getenv("VCHECK_DEBUG") != "" {
				fmt.Fprintln(os.Stderr, "possibleInts: out of range feasible")
			}
			return nil
		}
		var out []int64
		for k := int64(0); k <= hi; k++ {
			if m.Feasible(c.And(it.G, c.Eq(t, m.IntC(k)))) {
				out = append(out, k)
			}
		}
		return out
	}
	var out []int64
	for k := range seen {
		if m.Feasible == nil || m.Feasible(m.C.And(it.G, m.C.Eq(t, m.IntC(k)))) {
			out = append(out, k)
		}
	}
	sort.Slice(out, func(i, j int) bool { return out[i] < out[j] })
	return out
}
