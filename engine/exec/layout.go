package exec

import (
	"fmt"
	"go/types"
	"math/big"

	"gosmt/sym"
)

func isByteSlice(t types.Type) bool {
	if s, ok := t.Underlying().(*types.Slice); ok {
		if b, ok := s.Elem().Underlying().(*types.Basic); ok && (b.Kind() == types.Uint8) {
			return true
		}
	}
	return false
}

func isString(t types.Type) bool {
	b, ok := t.Underlying().(*types.Basic)
	return ok && b.Info()&types.IsString != 0
}

func isTextType(t types.Type) bool { return isString(t) || isByteSlice(t) }

// cellCount: number of leaf cells of a value of type t stored in memory.
func cellCount(t types.Type) int {
	switch u := t.Underlying().(type) {
	case *types.Struct:
		n := 0
		for i := 0; i < u.NumFields(); i++ {
			n += cellCount(u.Field(i).Type())
		}
		return n
	case *types.Array:
		return int(u.Len()) * cellCount(u.Elem())
	case *types.Tuple:
		n := 0
		for i := 0; i < u.Len(); i++ {
			n += cellCount(u.At(i).Type())
		}
		return n
	}
	return 1
}

func fieldOffset(st *types.Struct, idx int) int {
	n := 0
	for i := 0; i < idx; i++ {
		n += cellCount(st.Field(i).Type())
	}
	return n
}

func (m *Machine) intSort() sym.Sort {
	if m.IntMode {
		return sym.SInt
	}
	return sym.SBV
}
func (m *Machine) floatSort() sym.Sort {
	if m.IntMode {
		return sym.SReal
	}
	return sym.SFP
}

func (m *Machine) IntC(v int64) T {
	if m.IntMode {
		return m.C.Int(v)
	}
	return m.C.BVs(v)
}

func (m *Machine) scalarSort(t types.Type) sym.Sort {
	b, ok := t.Underlying().(*types.Basic)
	if !ok {
		panic(fmt.Sprintf("scalarSort: %v", t))
	}
	switch {
	case b.Info()&types.IsBoolean != 0:
		return sym.SBool
	case b.Info()&types.IsInteger != 0:
		return m.intSort()
	case b.Info()&types.IsFloat != 0:
		return m.floatSort()
	case b.Kind() == types.UnsafePointer:
		return m.intSort()
	}
	panic(fmt.Sprintf("scalarSort: unsupported basic %v", t))
}

func (m *Machine) EmptyText() Text {
	z := m.IntC(0)
	e := ""
	return Text{W: z, N: z, NL: z, CUU: z, ID: z, Lit: &e}
}

// ZeroValue of type t as a register/cell value (composites for struct/array).
func (m *Machine) ZeroValue(t types.Type) Value {
	switch u := t.Underlying().(type) {
	case *types.Basic:
		if u.Info()&types.IsString != 0 {
			return m.EmptyText()
		}
		if u.Kind() == types.UntypedNil {
			return Ptr{}
		}
		s := m.scalarSort(t)
		switch s {
		case sym.SBool:
			return m.C.False
		case sym.SBV:
			return m.C.BV(0)
		case sym.SInt:
			return m.C.Int(0)
		case sym.SReal:
			return m.C.Real(big.NewRat(0, 1))
		case sym.SFP:
			return m.C.FP(0)
		}
	case *types.Pointer, *types.Chan, *types.Map:
		return Ptr{}
	case *types.Slice:
		if isByteSlice(t) {
			return m.EmptyText()
		}
		return SliceV{Ptr{}, m.IntC(0), m.IntC(0)}
	case *types.Interface:
		return Iface{}
	case *types.Signature:
		return FuncV{}
	case *types.Struct:
		out := make([]Value, u.NumFields())
		for i := range out {
			out[i] = m.ZeroValue(u.Field(i).Type())
		}
		return StructV{out}
	case *types.Array:
		out := make([]Value, int(u.Len()))
		for i := range out {
			out[i] = m.ZeroValue(u.Elem())
		}
		return ArrayV{out}
	case *types.Tuple:
		out := make(Tuple, u.Len())
		for i := range out {
			out[i] = m.ZeroValue(u.At(i).Type())
		}
		return out
	}
	panic(fmt.Sprintf("ZeroValue: unsupported %v", t))
}

// flatten a register value of type t into leaf cells.
func flatten(t types.Type, v Value, out []Value) []Value {
	switch u := t.Underlying().(type) {
	case *types.Struct:
		sv := v.(StructV)
		for i := 0; i < u.NumFields(); i++ {
			out = flatten(u.Field(i).Type(), sv.F[i], out)
		}
		return out
	case *types.Array:
		av := v.(ArrayV)
		for i := 0; i < int(u.Len()); i++ {
			out = flatten(u.Elem(), av.E[i], out)
		}
		return out
	}
	return append(out, v)
}

// unflatten builds a register value of type t from cells starting at *pos.
func unflatten(t types.Type, cells func(i int) Value, pos *int) Value {
	switch u := t.Underlying().(type) {
	case *types.Struct:
		out := make([]Value, u.NumFields())
		for i := range out {
			out[i] = unflatten(u.Field(i).Type(), cells, pos)
		}
		return StructV{out}
	case *types.Array:
		out := make([]Value, int(u.Len()))
		for i := range out {
			out[i] = unflatten(u.Elem(), cells, pos)
		}
		return ArrayV{out}
	}
	v := cells(*pos)
	*pos++
	return v
}

// NewObject allocates a plain object of type t with zero cells in the current heap.
func (m *Machine) NewObject(t types.Type, site string) *Object {
	cells := flatten(t, m.ZeroValue(t), nil)
	return m.canonObject(Object{Kind: KPlain, Site: site, T: t, NCells: len(cells)}, cells)
}

// NewArray allocates a backing array of n elements of type elem.
func (m *Machine) NewArray(elem types.Type, n int, site string) *Object {
	var cells []Value
	for i := 0; i < n; i++ {
		cells = flatten(elem, m.ZeroValue(elem), cells)
	}
	return m.canonObject(Object{Kind: KPlain, Site: site, T: types.NewArray(elem, int64(n)), ElemSize: cellCount(elem), NCells: len(cells)}, cells)
}

// Load reads a value of type t through pointer p under guard g (nil deref is a panic obligation).
func (m *Machine) Load(it *Item, p Ptr, t types.Type) Value {
	c := m.C
	p = m.restrictPtr(m.lits(it.G), p)
	nn := m.ptrNonNil(p)
	m.obligePanic(it, c.Not(nn), "nil pointer dereference (load)")
	var res Value
	n := cellCount(t)
	for i := len(p.Alts) - 1; i >= 0; i-- {
		a := p.Alts[i]
		if a.Off+n > m.heap.NumCells(a.Obj) {
			panic(fmt.Sprintf("load out of object bounds: %v off %d n %d type %v", a.Obj, a.Off, n, t))
		}
		pos := a.Off
		if m.race != nil {
			for j := 0; j < n; j++ {
				m.raceAccess(it, a.Obj, a.Off+j, m.C.And(it.G, a.G), false)
			}
		}
		v := unflatten(t, func(j int) Value { return m.heap.Get(a.Obj, j) }, &pos)
		if res == nil {
			res = v
		} else {
			res = m.Merge(a.G, v, res)
		}
	}
	if res == nil {
		return m.ZeroValue(t)
	}
	return m.Restrict(it.G, res)
}

// Store writes v of type t through p under guard g.
func (m *Machine) Store(it *Item, p Ptr, t types.Type, v Value) {
	c := m.C
	nn := m.ptrNonNil(p)
	m.obligePanic(it, c.Not(nn), "nil pointer dereference (store)")
	cells := flatten(t, v, nil)
	for _, a := range p.Alts {
		g := c.And(it.G, a.G)
		if g.IsFalse() {
			continue
		}
		for j, nv := range cells {
			if m.race != nil {
				m.raceAccess(it, a.Obj, a.Off+j, g, true)
			}
			old := m.heap.Get(a.Obj, a.Off+j)
			m.heap.Set(a.Obj, a.Off+j, m.Merge(g, nv, old))
		}
	}
}
