package exec

import (
	"encoding/binary"
	"fmt"
	"go/token"
	"go/types"
	"sort"
	"strings"
	"time"

	"gosmt/sym"

	"golang.org/x/tools/go/ssa"
)

type EventKind int

const (
	EvAssume EventKind = iota
	EvOblige
)

// Event is an assumption or a proof obligation, in chronological order of emission.
type Event struct {
	Kind  EventKind
	Class string // assert | cover | panic | unwind | wrap | deadlock | bound | race | leak | fpexc
	ID    string
	Cond  T // assumption: asserted formula; obligation: violation condition (must be UNSAT; cover: must be SAT)
	Guard T // assumption: Cond has the form Guard -> body (nil if unconditional)
	Pos   string
	Step  int
}

type Frame struct {
	fi        *FnInfo
	parent    *Frame
	regs      []Value
	block, pc int
	iters     []int
	defers    []deferEntry
	resultReg int
	prefix    []int32 // key of enclosing frames incl. call site and this fn's index
}

type deferEntry struct {
	g    T
	call *ssa.CallCommon
	fn   Value // evaluated callee (FuncV) or nil for static/invoke
	args []Value
	recv Value
}

type Item struct {
	G     T
	F     *Frame
	Gor   *Gor
	Op    *VisOp // non-nil when suspended at a visible operation
	Clock int    // number of moves this goroutine has made along this path (local logical time)
	Since int    // step at which the item was parked at its current operation
}

type Machine struct {
	C       *sym.Ctx
	Prog    *ssa.Program
	IntMode bool
	Unwind  int
	Events  []Event

	heap     *Heap
	nextObj  int
	NObjects int
	fnInfos  map[*ssa.Function]*FnInfo
	globals  map[*ssa.Global]*Object
	synthG   map[string]Value
	initDone map[*ssa.Package]bool

	RepoPrefix string // import path prefix of the code under test
	RaceDetect bool   // happens-before race detection along the explored schedule (race.go)
	race       *raceState
	Intrinsics map[string]Intrinsic
	ExecReal   map[string]bool // external packages whose SSA bodies are executed

	gors    []*Gor
	curGor  *Gor
	step    int
	wl      *worklist
	susp    []*Item
	spawned map[string]*Gor

	Feasible func(g T) bool // optional solver-backed pruning

	// statistics
	NInstr, NBlocks, NMerges, NCalls int
	FuncsSeen                        map[string]bool
	Stubs                            map[string]bool
	Assumptions                      map[string]bool
	Notes                            []string
	SliceCap                         int
	ChanSlots                        int
	Inputs                           []InputVar
	ghost                            map[string]Value
	Trace                            bool
	Err                              error
	Deterministic                    bool
	MaxSteps                         int
	MainGor                          *Gor
	StepLog                          []StepInfo
	NoPrune                          bool
	NTrivial, NAsserts               int
	Trace2                           bool
	Params                           map[string]int64 // concrete scenario parameters (vParam)
	ClockKeys                        bool             // keep alternatives with different local clocks apart (canonical event names are shared across interleavings)
	holdDepth                        int
	lastChosen                       map[string]int
	PruneBranches                    bool
	Deadline                         time.Time // wall-clock budget of the symbolic execution (zero = none)
	Fairness                         int       // a move enabled for more than this many steps is taken first (0 = default 10)
	quiescent                        bool
	SincePositive                    bool
	MarkCUU                          bool // vMarkCursorUp: a cursor-up sequence counts as order mark 15 in text fingerprints
	SinceFixed                       T // when set (vStartAgo) every time.Since returns exactly this duration
	approxMemo, approxBody           map[string]T
	approxList                       map[string][]approxRec
	divList                          []divRec
	appendDepth                      int
	SymFrom, SymTo                   int    // steps [SymFrom,SymTo) choose the move by a solver variable, the others follow Policy
	Policy                           string // baseline scheduling policy
	PollMiss                         bool   // offer "select default although a partner waits" alternatives (see enumerate)
	Progress                         func(step, enumerated, live, alts, gors int)
	textIDs                          map[string]int64
	rangeStates                      map[*Object]*rangeState
	errCount                         int
	lastNow                          T
	ghostLog                         []ghostRec
	inputNames                       map[string]int
	cur                              *Item
	curSeq                           int
	anon                             int
	canon                            map[string]*Object
	eventIDs                         map[string]int
}

type InputVar struct {
	Name string
	Term T
	Type string
}

type engineError struct{ msg string }

func (m *Machine) fail(format string, args ...interface{}) {
	panic(engineError{fmt.Sprintf(format, args...)})
}

func NewMachine(prog *ssa.Program, intMode bool) *Machine {
	m := &Machine{C: sym.NewCtx(), Prog: prog, IntMode: intMode, Unwind: 16,
		fnInfos: map[*ssa.Function]*FnInfo{}, globals: map[*ssa.Global]*Object{}, synthG: map[string]Value{},
		initDone: map[*ssa.Package]bool{}, Intrinsics: map[string]Intrinsic{}, ExecReal: map[string]bool{},
		FuncsSeen: map[string]bool{}, Stubs: map[string]bool{}, Assumptions: map[string]bool{}, SliceCap: 8, ChanSlots: 3,
		ghost: map[string]Value{}, spawned: map[string]*Gor{}, MaxSteps: 64, rangeStates: map[*Object]*rangeState{}, canon: map[string]*Object{}, eventIDs: map[string]int{}, approxMemo: map[string]T{}, approxBody: map[string]T{}, approxList: map[string][]approxRec{}}
	m.heap = NewHeap(nil)
	registerIntrinsics(m)
	return m
}

// ---- events

func (m *Machine) Assume(cond T, why string) {
	if cond.IsTrue() {
		return
	}
	m.Events = append(m.Events, Event{Kind: EvAssume, Class: "assume", ID: why, Cond: cond, Step: m.step})
}

// AssumeUnder records guard -> body; obligations whose condition contradicts guard syntactically skip it.
func (m *Machine) AssumeUnder(guard, body T, why string) {
	cond := m.C.Implies(guard, body)
	if cond.IsTrue() {
		return
	}
	m.Events = append(m.Events, Event{Kind: EvAssume, Class: "assume", ID: why, Cond: cond, Guard: guard, Step: m.step})
}

func (m *Machine) Oblige(class, id string, viol T, pos string) {
	if viol.IsFalse() && class != "cover" {
		// trivially discharged; still counted by the caller through NTrivial
		m.NTrivial++
		return
	}
	m.Events = append(m.Events, Event{Kind: EvOblige, Class: class, ID: id, Cond: viol, Pos: pos, Step: m.step})
}

func (m *Machine) obligePanic(it *Item, cond T, msg string) {
	v := m.C.And(it.G, cond)
	if v.IsFalse() {
		return
	}
	m.Oblige("panic", msg, v, m.posOf(it))
}

func (m *Machine) posOf(it *Item) string {
	f := it.F
	if f == nil || f.fi == nil || len(f.fi.Fn.Blocks) == 0 {
		return "?"
	}
	b := f.fi.Fn.Blocks[f.block]
	pc := f.pc
	if pc >= len(b.Instrs) {
		pc = len(b.Instrs) - 1
	}
	for i := pc; i >= 0; i-- {
		if p := b.Instrs[i].Pos(); p.IsValid() {
			return m.Prog.Fset.Position(p).String() + " (" + f.fi.Fn.String() + ")"
		}
	}
	return f.fi.Fn.String()
}

// ---- keys and worklist

func putKey(dst []int32, vs ...int) []int32 {
	for _, v := range vs {
		dst = append(dst, int32(v))
	}
	return dst
}

func (f *Frame) key() []int32 {
	k := append([]int32(nil), f.prefix...)
	ch := f.fi.Chain[f.block]
	for d, h := range ch {
		k = putKey(k, f.fi.Pos[h], f.iters[d])
	}
	k = putKey(k, f.fi.Pos[f.block], f.pc)
	return k
}

func keyString(k []int32) string {
	b := make([]byte, 4*len(k))
	for i, v := range k {
		binary.BigEndian.PutUint32(b[4*i:], uint32(v))
	}
	return string(b)
}

type worklist struct {
	items map[string]*Item
}

func newWorklist() *worklist { return &worklist{items: map[string]*Item{}} }

func (m *Machine) wlAdd(wl *worklist, it *Item) {
	if it.G.IsFalse() {
		return
	}
	k := keyString(append([]int32{int32(it.Gor.ID), int32(it.Clock)}, it.F.key()...))
	if old, ok := wl.items[k]; ok {
		wl.items[k] = m.mergeItems(old, it)
		m.NMerges++
		return
	}
	wl.items[k] = it
}

func (wl *worklist) popMin() *Item {
	var best string
	first := true
	for k := range wl.items {
		if first || k < best {
			best, first = k, false
		}
	}
	it := wl.items[best]
	delete(wl.items, best)
	return it
}

func copyFrame(f *Frame) *Frame {
	nf := *f
	nf.regs = append([]Value(nil), f.regs...)
	nf.iters = append([]int(nil), f.iters...)
	nf.defers = append([]deferEntry(nil), f.defers...)
	return &nf
}

func (m *Machine) mergeFrames(sel T, a, b *Frame) *Frame {
	if a == b {
		return a
	}
	if a == nil || b == nil {
		m.fail("mergeFrames: stack depth mismatch")
	}
	if a.fi != b.fi || a.block != b.block || a.pc != b.pc {
		m.fail("mergeFrames: position mismatch %s/%s", a.fi.Fn, b.fi.Fn)
	}
	nf := copyFrame(a)
	for i := range nf.regs {
		x, y := a.regs[i], b.regs[i]
		if x == nil && y == nil {
			continue
		}
		if !sameShape(x, y) {
			// stale register from another path: keep whichever is defined on the live side
			if x == nil {
				nf.regs[i] = y
			}
			continue
		}
		nf.regs[i] = m.Merge(sel, x, y)
	}
	if len(a.defers) != len(b.defers) {
		m.fail("mergeFrames: differing defer stacks in %s", a.fi.Fn)
	}
	for i := range nf.defers {
		da, db := a.defers[i], b.defers[i]
		if da.call != db.call {
			m.fail("mergeFrames: differing defer entries in %s", a.fi.Fn)
		}
		nd := da
		nd.g = m.C.Ite(sel, da.g, db.g)
		nd.args = make([]Value, len(da.args))
		for j := range da.args {
			nd.args[j] = m.Merge(sel, da.args[j], db.args[j])
		}
		if da.fn != nil {
			nd.fn = m.Merge(sel, da.fn, db.fn)
		}
		if da.recv != nil {
			nd.recv = m.Merge(sel, da.recv, db.recv)
		}
		nf.defers[i] = nd
	}
	nf.parent = m.mergeFrames(sel, a.parent, b.parent)
	return nf
}

func (m *Machine) mergeItems(a, b *Item) *Item {
	g := m.C.Or(a.G, b.G)
	return &Item{G: g, F: m.mergeFrames(a.G, a.F, b.F), Gor: a.Gor, Clock: a.Clock}
}

// ---- register access

func (m *Machine) val(f *Frame, v ssa.Value) Value {
	switch x := v.(type) {
	case *ssa.Const:
		return m.constVal(x)
	case *ssa.Global:
		return single(m.globalObj(x), 0, m.C)
	case *ssa.Function:
		return FuncV{[]FuncAlt{{G: m.C.True, Fn: x}}}
	case *ssa.Builtin:
		m.fail("builtin %s used as value", x.Name())
	}
	i, ok := f.fi.RegOf[v]
	if !ok {
		m.fail("no register for %s in %s", v.Name(), f.fi.Fn)
	}
	r := f.regs[i]
	if r == nil {
		m.fail("read of undefined register %s (%T) in %s", v.Name(), v, f.fi.Fn)
	}
	return r
}

func (m *Machine) setReg(f *Frame, v ssa.Value, val Value) {
	f.regs[f.fi.RegOf[v]] = val
}

func (m *Machine) constVal(c *ssa.Const) Value {
	t := c.Type()
	if c.Value == nil {
		return m.ZeroValue(t)
	}
	b, ok := t.Underlying().(*types.Basic)
	if !ok {
		m.fail("const of non-basic type %v", t)
	}
	switch {
	case b.Info()&types.IsBoolean != 0:
		return m.C.Bool(constantBool(c))
	case b.Info()&types.IsInteger != 0:
		if b.Info()&types.IsUnsigned != 0 {
			u := c.Uint64()
			if m.IntMode {
				return m.C.IntBig(bigFromUint64(u))
			}
			return m.C.BV(u)
		}
		return m.IntC(c.Int64())
	case b.Info()&types.IsFloat != 0:
		f := c.Float64()
		if m.IntMode {
			return m.C.RealF(f)
		}
		return m.C.FP(f)
	case b.Info()&types.IsString != 0:
		return m.constText(constantString(c))
	}
	m.fail("unsupported constant %v", c)
	return nil
}

// ---- running

// runItems executes items to their next visible operations; returns via m.susp.
func (m *Machine) runWorklist(wl *worklist) {
	for len(wl.items) > 0 {
		it := wl.popMin()
		if it.G.IsFalse() {
			continue
		}
		m.execItem(wl, it)
	}
}

func (m *Machine) enterFunction(it *Item, fn *ssa.Function, args []Value, binds []Value, resultReg int) {
	fi := m.fnInfo(fn)
	if len(fn.Blocks) == 0 {
		m.fail("call to function without body: %s", fn)
	}
	m.FuncsSeen[fn.String()] = true
	m.NCalls++
	var prefix []int32
	if it.F != nil {
		prefix = append(it.F.key(), int32(fi.Idx))
	} else {
		prefix = []int32{int32(fi.Idx)}
	}
	if len(prefix) > 4000 {
		m.fail("call depth too large (recursion?) in %s", fn)
	}
	nf := &Frame{fi: fi, parent: it.F, regs: make([]Value, fi.NRegs), resultReg: resultReg, prefix: prefix}
	if len(args) != len(fn.Params) {
		m.fail("arg count mismatch calling %s: %d vs %d", fn, len(args), len(fn.Params))
	}
	for i, p := range fn.Params {
		nf.regs[fi.RegOf[p]] = args[i]
	}
	for i, p := range fn.FreeVars {
		nf.regs[fi.RegOf[p]] = binds[i]
	}
	nf.iters = make([]int, len(fi.Chain[0]))
	it.F = nf
}

// transfer moves an item along the CFG edge from->to (evaluating phis), adds to worklist.
func (m *Machine) transfer(wl *worklist, it *Item, to *ssa.BasicBlock) {
	f := it.F
	from := f.fi.Fn.Blocks[f.block]
	// phis
	predIdx := -1
	for i, p := range to.Preds {
		if p == from {
			predIdx = i
			break
		}
	}
	var phiVals []Value
	var phis []*ssa.Phi
	for _, ins := range to.Instrs {
		ph, ok := ins.(*ssa.Phi)
		if !ok {
			break
		}
		phis = append(phis, ph)
		phiVals = append(phiVals, m.val(f, ph.Edges[predIdx]))
	}
	for i, ph := range phis {
		m.setReg(f, ph, phiVals[i])
	}
	// loop iteration vector
	oldChain := f.fi.Chain[f.block]
	newChain := f.fi.Chain[to.Index]
	ni := make([]int, len(newChain))
	back := f.fi.IsBack[[2]int{from.Index, to.Index}]
	for d, h := range newChain {
		if d < len(oldChain) && oldChain[d] == h {
			ni[d] = f.iters[d]
			if back && h == to.Index {
				ni[d]++
			}
		}
	}
	if back {
		d := len(newChain) - 1
		if ni[d] > m.Unwind {
			m.Oblige("unwind", fmt.Sprintf("loop bound %d exceeded in %s", m.Unwind, f.fi.Fn), it.G, m.posOf(it))
			return
		}
		if ni[d] >= 2 && m.Feasible != nil && !it.G.IsFalse() {
			if !m.Feasible(it.G) {
				return
			}
		}
	}
	f.iters = ni
	f.block = to.Index
	f.pc = len(phis)
	m.NBlocks++
	m.wlAdd(wl, it)
}

func (m *Machine) forkItem(it *Item, g T) *Item {
	return &Item{G: m.C.And(it.G, g), F: copyFrame(it.F), Gor: it.Gor, Clock: it.Clock}
}

// execItem runs one item until a control transfer, suspension or death.
func (m *Machine) execItem(wl *worklist, it *Item) {
	for {
		f := it.F
		blk := f.fi.Fn.Blocks[f.block]
		if f.pc >= len(blk.Instrs) {
			m.fail("fell off block in %s", f.fi.Fn)
		}
		ins := blk.Instrs[f.pc]
		m.NInstr++
		m.cur, m.curSeq = it, 0
		if m.Trace {
			fmt.Printf("  [g%d] %s: %s\n", it.Gor.ID, f.fi.Fn.Name(), ins)
		}
		switch x := ins.(type) {
		case *ssa.If:
			cond := m.val(f, x.Cond).(T)
			if cond.IsTrue() {
				m.transfer(wl, it, blk.Succs[0])
			} else if cond.IsFalse() {
				m.transfer(wl, it, blk.Succs[1])
			} else {
				a := m.forkItem(it, cond)
				b := m.forkItem(it, m.C.Not(cond))
				// a branch that cannot be taken under the assumptions made so far is dropped (solver-decided)
				if m.PruneBranches && m.Feasible != nil {
					if !m.Feasible(a.G) {
						a.G = m.C.False
					} else if !m.Feasible(b.G) {
						b.G = m.C.False
					}
				}
				if !a.G.IsFalse() {
					m.transfer(wl, a, blk.Succs[0])
				}
				if !b.G.IsFalse() {
					m.transfer(wl, b, blk.Succs[1])
				}
			}
			return
		case *ssa.Jump:
			m.transfer(wl, it, blk.Succs[0])
			return
		case *ssa.Return:
			var res Value
			switch len(x.Results) {
			case 0:
			case 1:
				res = m.val(f, x.Results[0])
			default:
				tu := make(Tuple, len(x.Results))
				for i, r := range x.Results {
					tu[i] = m.val(f, r)
				}
				res = tu
			}
			m.doReturn(wl, it, res)
			return
		case *ssa.Panic:
			m.Oblige("panic", "explicit panic: "+m.describe(m.val(f, x.X)), it.G, m.posOf(it))
			return
		case *ssa.Call:
			if m.callIsVisible(f, x.Common()) {
				m.suspend(it, nil)
				return
			}
			if m.doCall(wl, it, x.Common(), f.fi.RegOf[x], x) {
				return
			}
			continue
		case *ssa.Go:
			m.doGo(it, x)
			f.pc++
			continue
		case *ssa.Defer:
			m.doDefer(it, x)
			f.pc++
			continue
		case *ssa.RunDefers:
			if m.doRunDefers(wl, it) {
				return
			}
			continue
		case *ssa.Send:
			m.suspend(it, &VisOp{Kind: OpSend, Ch: m.val(f, x.Chan).(Ptr), Val: m.val(f, x.X), Instr: x})
			return
		case *ssa.Select:
			m.suspendSelect(it, x)
			return
		case *ssa.UnOp:
			if x.Op == token.ARROW {
				m.suspend(it, &VisOp{Kind: OpRecv, Ch: m.val(f, x.X).(Ptr), CommaOk: x.CommaOk, Instr: x})
				return
			}
		}
		m.step1(it, ins)
		if it.G.IsFalse() {
			return
		}
		it.F.pc++
	}
}

func (m *Machine) doReturn(wl *worklist, it *Item, res Value) {
	f := it.F
	if f.parent == nil {
		m.gorFinished(it)
		return
	}
	nf := copyFrame(f.parent)
	if f.resultReg >= 0 {
		nf.regs[f.resultReg] = res
	}
	if f.resultReg == -2 {
		// returning from a deferred call: stay at RunDefers (pc unchanged) to run the next one
		it.F = nf
		m.wlAdd(wl, it)
		return
	}
	nf.pc++
	it.F = nf
	m.wlAdd(wl, it)
}

func (m *Machine) describe(v Value) string {
	switch x := v.(type) {
	case T:
		return m.C.String(x)
	case Iface:
		var s []string
		for _, a := range x.Alts {
			if a.T != nil {
				s = append(s, a.T.String())
			} else {
				s = append(s, a.S)
			}
		}
		return "iface{" + strings.Join(s, "|") + "}"
	case Text:
		return "text"
	}
	return fmt.Sprintf("%T", v)
}

// ---- defers

func (m *Machine) doDefer(it *Item, x *ssa.Defer) {
	f := it.F
	cc := &x.Call
	de := deferEntry{g: m.C.True, call: cc}
	for _, a := range cc.Args {
		de.args = append(de.args, m.val(f, a))
	}
	if cc.IsInvoke() {
		de.recv = m.val(f, cc.Value)
	} else if _, ok := cc.Value.(*ssa.Function); !ok {
		if _, isB := cc.Value.(*ssa.Builtin); !isB {
			de.fn = m.val(f, cc.Value)
		}
	}
	f.defers = append(f.defers, de)
}

// doRunDefers pops one deferred call and invokes it; returns true if control left the item.
func (m *Machine) doRunDefers(wl *worklist, it *Item) bool {
	f := it.F
	if len(f.defers) == 0 {
		f.pc++
		return false
	}
	de := f.defers[len(f.defers)-1]
	if m.isVisibleCall(f, de.call, de.fn) {
		m.suspend(it, nil)
		return true
	}
	f.defers = f.defers[:len(f.defers)-1]
	return m.invoke(wl, it, de.call, de.fn, de.recv, de.args, -2, nil)
}

// ---- calls

// doCall executes a call instruction; returns true if control left the current item
// (frame pushed / suspended / forked), false if the call completed inline (pc already advanced).
func (m *Machine) doCall(wl *worklist, it *Item, cc *ssa.CallCommon, resultReg int, instr ssa.Instruction) bool {
	f := it.F
	var args []Value
	for _, a := range cc.Args {
		args = append(args, m.val(f, a))
	}
	var fnv, recv Value
	if cc.IsInvoke() {
		recv = m.val(f, cc.Value)
	} else {
		switch cc.Value.(type) {
		case *ssa.Function, *ssa.Builtin:
		default:
			fnv = m.val(f, cc.Value)
		}
	}
	return m.invoke(wl, it, cc, fnv, recv, args, resultReg, instr)
}

func (m *Machine) callIsVisible(f *Frame, cc *ssa.CallCommon) bool {
	if cc.IsInvoke() {
		return false
	}
	switch cc.Value.(type) {
	case *ssa.Function, *ssa.Builtin:
		return m.isVisibleCall(f, cc, nil)
	}
	return m.isVisibleCall(f, cc, m.val(f, cc.Value))
}

// finishInline stores a call result and advances.
func (m *Machine) finishInline(it *Item, resultReg int, res Value) {
	if resultReg >= 0 {
		it.F.regs[resultReg] = res
	}
	if resultReg != -2 {
		it.F.pc++
	}
}

func (m *Machine) invoke(wl *worklist, it *Item, cc *ssa.CallCommon, fnv, recv Value, args []Value, resultReg int, instr ssa.Instruction) bool {
	c := m.C
	if cc.IsInvoke() {
		iv := recv.(Iface)
		m.obligePanic(it, c.Not(m.ifaceNonNil(iv)), "method call on nil interface "+cc.Method.Name())
		var live []IfaceAlt
		for _, a := range iv.Alts {
			if !c.And(it.G, a.G).IsFalse() {
				live = append(live, a)
			}
		}
		if len(live) == 0 {
			it.G = c.False
			return true
		}
		if len(live) == 1 {
			a := live[0]
			it.G = c.And(it.G, a.G)
			return m.invokeMethod(wl, it, a, cc.Method, args, resultReg)
		}
		for _, a := range live {
			ni := m.forkItem(it, a.G)
			if !m.invokeMethod(wl, ni, a, cc.Method, args, resultReg) {
				m.wlAdd(wl, ni)
			}
		}
		return true
	}
	switch callee := cc.Value.(type) {
	case *ssa.Builtin:
		res := m.builtin(it, callee, cc, args)
		m.finishInline(it, resultReg, res)
		return false
	case *ssa.Function:
		return m.callFunction(wl, it, callee, args, nil, resultReg)
	}
	fv := fnv.(FuncV)
	m.obligePanic(it, c.Not(m.funcNonNil(fv)), "call of nil func")
	var live []FuncAlt
	for _, a := range fv.Alts {
		if !c.And(it.G, a.G).IsFalse() {
			live = append(live, a)
		}
	}
	if len(live) == 0 {
		it.G = c.False
		return true
	}
	if len(live) == 1 {
		a := live[0]
		it.G = c.And(it.G, a.G)
		return m.callFuncAlt(wl, it, a, args, resultReg)
	}
	for _, a := range live {
		ni := m.forkItem(it, a.G)
		if !m.callFuncAlt(wl, ni, a, args, resultReg) {
			m.wlAdd(wl, ni)
		}
	}
	return true
}

func (m *Machine) callFuncAlt(wl *worklist, it *Item, a FuncAlt, args []Value, resultReg int) bool {
	if a.Builtin != "" {
		return m.callBuiltinClosure(wl, it, a, args, resultReg)
	}
	return m.callFunction(wl, it, a.Fn, args, a.Binds, resultReg)
}

func (m *Machine) invokeMethod(wl *worklist, it *Item, a IfaceAlt, meth *types.Func, args []Value, resultReg int) bool {
	if a.S != "" {
		return m.synthMethod(wl, it, a, meth.Name(), args, resultReg)
	}
	fn := m.Prog.LookupMethod(a.T, meth.Pkg(), meth.Name())
	if fn == nil {
		m.fail("no method %s on %v", meth.Name(), a.T)
	}
	full := append([]Value{a.V}, args...)
	return m.callFunction(wl, it, fn, full, nil, resultReg)
}

func (m *Machine) callFunction(wl *worklist, it *Item, fn *ssa.Function, args []Value, binds []Value, resultReg int) bool {
	name := fn.String()
	if h, ok := m.Intrinsics[name]; ok {
		m.Stubs[name] = true
		return h(m, wl, it, fn, args, resultReg)
	}
	if strings.HasPrefix(fn.Name(), "v") && fn.Pkg != nil && strings.HasPrefix(fn.Pkg.Pkg.Path(), m.RepoPrefix) {
		if h, ok := m.vocab(fn.Name()); ok {
			return h(m, wl, it, fn, args, resultReg)
		}
	}
	if fn.Name() == "init" && fn.Pkg != nil && !strings.HasPrefix(fn.Pkg.Pkg.Path(), m.RepoPrefix) {
		m.finishInline(it, resultReg, nil)
		return false
	}
	if fn.Blocks == nil {
		m.fail("unmodelled external function without body: %s", name)
	}
	pkgPath := ""
	if fn.Pkg != nil {
		pkgPath = fn.Pkg.Pkg.Path()
	} else if fn.Origin() != nil && fn.Origin().Pkg != nil {
		pkgPath = fn.Origin().Pkg.Pkg.Path()
	} else if recvT := fn.Signature.Recv(); recvT != nil {
		pkgPath = pkgOfType(recvT.Type())
	}
	// pure arithmetic methods of time.Duration (Round, Seconds, Minutes, Hours, Abs, ...) run from their real bodies
	pureReal := strings.HasPrefix(name, "(time.Duration).") || name == "time.lessThanHalf"
	if !strings.HasPrefix(pkgPath, m.RepoPrefix) && !m.ExecReal[pkgPath] && pkgPath != "" && !pureReal {
		m.fail("unmodelled external call: %s (package %s)", name, pkgPath)
	}
	m.enterFunction(it, fn, args, binds, resultReg)
	m.wlAdd(wl, it)
	return true
}

func pkgOfType(t types.Type) string {
	for {
		switch x := t.(type) {
		case *types.Pointer:
			t = x.Elem()
			continue
		case *types.Named:
			if x.Obj().Pkg() != nil {
				return x.Obj().Pkg().Path()
			}
			return ""
		}
		return ""
	}
}

// ---- helpers for sorting/diagnostics

func (m *Machine) SortedFuncs() []string {
	var s []string
	for k := range m.FuncsSeen {
		s = append(s, k)
	}
	sort.Strings(s)
	return s
}

// eventKey identifies the current execution event canonically: (goroutine, its local clock, call stack and
// program point with loop iterations, sequence number within the instruction). The same event reached through
// different interleavings gets the same key, so objects, goroutines and nondeterministic values created at it
// are shared (their guards are mutually exclusive: one valuation has one execution).
func (m *Machine) eventKey(tag string) string {
	it := m.cur
	if it == nil || it.F == nil {
		m.anon++
		return fmt.Sprintf("anon%d|%s", m.anon, tag)
	}
	m.curSeq++
	return fmt.Sprintf("%d|%d|%s|%d|%s", it.Gor.ID, it.Clock, keyString(it.F.key()), m.curSeq, tag)
}

func (m *Machine) eventID(tag string) int {
	k := m.eventKey(tag)
	id, ok := m.eventIDs[k]
	if !ok {
		id = len(m.eventIDs) + 1
		m.eventIDs[k] = id
	}
	return id
}

// Fresh returns a nondeterministic value tied to the current event.
func (m *Machine) Fresh(hint string, s sym.Sort) T {
	return m.C.Var(fmt.Sprintf("%s@%d", hint, m.eventID(hint)), s)
}

// canonObject creates the object of the current allocation event, or re-initialises it under the current
// guard when the same event was already executed under another (exclusive) guard.
func (m *Machine) canonObject(proto Object, cells []Value) *Object {
	key := m.eventKey("obj")
	if o, ok := m.canon[key]; ok && m.cur != nil {
		cur := m.heap.lookup(o)
		if cur == nil {
			m.heap.Init(o, cells)
			return o
		}
		g := m.cur.G
		own := m.heap.own(o)
		if o.Kind == KMap {
			for e := 0; e < len(own)/3; e++ {
				own[3*e] = m.C.And(own[3*e].(T), m.C.Not(g))
			}
			return o
		}
		for j := 0; j < len(own) && j < len(cells); j++ {
			own[j] = m.Merge(g, cells[j], own[j])
		}
		return o
	}
	m.nextObj++
	o := new(Object)
	*o = proto
	o.ID = m.nextObj
	m.heap.Init(o, cells)
	m.canon[key] = o
	m.NObjects++
	return o
}
