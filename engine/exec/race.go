package exec

import (
	"fmt"
	"strings"
)

// Happens-before race detection along the explored schedule (vector clocks; FastTrack-like shadow cells).
// Synchronisation edges follow the Go memory model for the operations the library uses: go statement,
// unbuffered rendezvous (both ways), buffered send -> receive, close -> receive-on-closed, cancel -> receive on
// Done, WaitGroup Add/Done -> Wait.  Edges are added for every executed candidate whatever its guard (an
// over-approximation of the ordering: races may be missed on guarded alternatives, none is invented); the
// feasibility of the two conflicting accesses together is a solver obligation of class "race".
// Only accesses made by library code (not by harness functions) are tracked.

type vclock map[int]int

func (v vclock) join(o vclock) {
	for k, x := range o {
		if x > v[k] {
			v[k] = x
		}
	}
}

func (v vclock) copyOf() vclock {
	n := vclock{}
	for k, x := range v {
		n[k] = x
	}
	return n
}

type raceAccess struct {
	gor   int
	clock int
	g     T
	pos   string
	name  string
}

type raceShadow struct {
	write *raceAccess
	reads map[int]*raceAccess
}

type raceKey struct {
	obj  *Object
	cell int
}

type raceState struct {
	vc       map[int]vclock     // goroutine id -> clock
	objVC    map[*Object]vclock // channel / waitgroup / done-channel clocks
	shadow   map[raceKey]*raceShadow
	reported map[string]bool
	off      int
	cur      *Gor // goroutine executing the current synchronisation action (for cancel)
}

func (m *Machine) raceInit() {
	m.race = &raceState{vc: map[int]vclock{}, objVC: map[*Object]vclock{}, shadow: map[raceKey]*raceShadow{}, reported: map[string]bool{}}
}

func (m *Machine) raceVC(g *Gor) vclock {
	v, ok := m.race.vc[g.ID]
	if !ok {
		v = vclock{g.ID: 1}
		m.race.vc[g.ID] = v
	}
	return v
}

func (m *Machine) raceTick(g *Gor) {
	if m.race == nil || g == nil {
		return
	}
	m.raceVC(g)[g.ID]++
}

// raceSpawn: everything the parent did so far happens before the child's first action.
func (m *Machine) raceSpawn(parent, child *Gor) {
	if m.race == nil || parent == nil || child == nil {
		return
	}
	pv := m.raceVC(parent)
	cv := m.raceVC(child)
	cv.join(pv)
	pv[parent.ID]++
}

// raceRelease: g's past happens before whoever acquires o later.
func (m *Machine) raceRelease(g *Gor, o *Object) {
	if m.race == nil || g == nil || o == nil {
		return
	}
	v, ok := m.race.objVC[o]
	if !ok {
		v = vclock{}
		m.race.objVC[o] = v
	}
	v.join(m.raceVC(g))
	m.raceVC(g)[g.ID]++
}

func (m *Machine) raceAcquire(g *Gor, o *Object) {
	if m.race == nil || g == nil || o == nil {
		return
	}
	if v, ok := m.race.objVC[o]; ok {
		m.raceVC(g).join(v)
	}
}

// raceRendezvous: an unbuffered communication orders both parties' pasts before both futures.
func (m *Machine) raceRendezvous(a, b *Gor) {
	if m.race == nil || a == nil || b == nil {
		return
	}
	va, vb := m.raceVC(a), m.raceVC(b)
	va.join(vb)
	vb.join(va)
	va[a.ID]++
	vb[b.ID]++
}

func (m *Machine) raceTracked(it *Item) bool {
	if m.race == nil || m.race.off > 0 || it == nil || it.Gor == nil || it.F == nil || it.F.fi == nil {
		return false
	}
	fn := it.F.fi.Fn
	for fn.Parent() != nil {
		fn = fn.Parent()
	}
	file := m.Prog.Fset.Position(fn.Pos()).Filename
	return !strings.Contains(file, "zz_verif_")
}

func (m *Machine) raceAccess(it *Item, o *Object, cell int, g T, write bool) {
	if !m.raceTracked(it) || o.Kind == KChan {
		return
	}
	rs := m.race
	k := raceKey{o, cell}
	sh := rs.shadow[k]
	if sh == nil {
		sh = &raceShadow{reads: map[int]*raceAccess{}}
		rs.shadow[k] = sh
	}
	me := it.Gor
	vc := m.raceVC(me)
	acc := &raceAccess{gor: me.ID, clock: vc[me.ID], g: g, pos: m.posOf(it), name: me.Name}
	conflict := func(prev *raceAccess, prevWrite bool) {
		if prev == nil || prev.gor == me.ID || prev.clock <= vc[prev.gor] {
			return
		}
		both := m.C.And(g, prev.g)
		if both.IsFalse() {
			return
		}
		kind := func(w bool) string {
			if w {
				return "write"
			}
			return "read"
		}
		id := fmt.Sprintf("data race on %s: %s at %s (%s) is not ordered with %s at %s (%s)", o.Site, kind(prevWrite), shortPos(prev.pos), prev.name, kind(write), shortPos(acc.pos), me.Name)
		if rs.reported[id] {
			return
		}
		rs.reported[id] = true
		m.Oblige("race", id, both, acc.pos)
	}
	conflict(sh.write, true)
	if write {
		for _, r := range sh.reads {
			conflict(r, false)
		}
		sh.write = acc
		sh.reads = map[int]*raceAccess{}
	} else {
		sh.reads[me.ID] = acc
	}
}
