package exec

import (
	"fmt"
	"go/token"
	"go/types"

	"gosmt/sym"

	"golang.org/x/tools/go/ssa"
)

// step1 executes one non-control, non-visible instruction.
func (m *Machine) step1(it *Item, ins ssa.Instruction) {
	f := it.F
	c := m.C
	switch x := ins.(type) {
	case *ssa.DebugRef:
	case *ssa.Alloc:
		et := x.Type().Underlying().(*types.Pointer).Elem()
		o := m.NewObject(et, m.siteOf(x))
		m.setReg(f, x, single(o, 0, c))
	case *ssa.BinOp:
		m.setReg(f, x, m.binop(it, x))
	case *ssa.UnOp:
		v := m.val(f, x.X)
		switch x.Op {
		case token.MUL:
			m.setReg(f, x, m.Load(it, v.(Ptr), x.Type()))
		case token.NOT:
			m.setReg(f, x, c.Not(v.(T)))
		case token.SUB:
			t := v.(T)
			if t.Sort == sym.SReal || t.Sort == sym.SFP {
				m.setReg(f, x, c.Neg(t))
			} else {
				m.setReg(f, x, m.normInt(it, x.Type(), c.Neg(t), "negation"))
			}
		case token.XOR:
			if m.IntMode {
				m.fail("bitwise not in int mode")
			}
			m.setReg(f, x, m.normInt(it, x.Type(), c.BNot(v.(T)), "not"))
		default:
			m.fail("unop %v", x.Op)
		}
	case *ssa.Store:
		m.Store(it, m.val(f, x.Addr).(Ptr), x.Val.Type(), m.val(f, x.Val))
	case *ssa.FieldAddr:
		p := m.val(f, x.X).(Ptr)
		st := x.X.Type().Underlying().(*types.Pointer).Elem().Underlying().(*types.Struct)
		off := fieldOffset(st, x.Field)
		m.obligePanic(it, c.Not(m.ptrNonNil(p)), "nil pointer dereference (field address)")
		np := Ptr{make([]PtrAlt, len(p.Alts))}
		for i, a := range p.Alts {
			np.Alts[i] = PtrAlt{a.G, a.Obj, a.Off + off}
		}
		m.setReg(f, x, np)
	case *ssa.Field:
		sv := m.val(f, x.X).(StructV)
		m.setReg(f, x, sv.F[x.Field])
	case *ssa.IndexAddr:
		m.setReg(f, x, m.indexAddr(it, x))
	case *ssa.Index:
		switch xv := m.val(f, x.X).(type) {
		case ArrayV:
			idx := m.val(f, x.Index).(T)
			m.setReg(f, x, m.selectByIndex(it, xv.E, idx, "array index out of range"))
		default:
			m.fail("Index on %T", xv)
		}
	case *ssa.Slice:
		m.setReg(f, x, m.sliceOp(it, x))
	case *ssa.MakeSlice:
		ln := m.val(f, x.Len).(T)
		cp := m.val(f, x.Cap).(T)
		if isByteSlice(x.Type()) {
			t := m.EmptyText()
			t.N = ln
			t.Lit = nil
			m.setReg(f, x, t)
			break
		}
		k, ok := cp.Int64()
		if !ok {
			k = int64(m.SliceCap)
			m.Oblige("bound", "make([]T) capacity exceeds modelled slice capacity", c.And(it.G, m.slt(m.IntC(k), cp)), m.posOf(it))
		}
		if k < int64(m.SliceCap) {
			k = int64(m.SliceCap)
		}
		et := x.Type().Underlying().(*types.Slice).Elem()
		o := m.NewArray(et, int(k), m.siteOf(x))
		m.setReg(f, x, SliceV{single(o, 0, c), ln, cp})
	case *ssa.MakeChan:
		sz := m.val(f, x.Size).(T)
		m.setReg(f, x, single(m.NewChan(it, x.Type().Underlying().(*types.Chan).Elem(), sz, m.siteOf(x)), 0, c))
	case *ssa.MakeMap:
		mt := x.Type().Underlying().(*types.Map)
		m.setReg(f, x, single(m.NewMap(mt, m.siteOf(x)), 0, c))
	case *ssa.MakeClosure:
		var binds []Value
		for _, b := range x.Bindings {
			binds = append(binds, m.val(f, b))
		}
		m.setReg(f, x, FuncV{[]FuncAlt{{G: c.True, Fn: x.Fn.(*ssa.Function), Binds: binds}}})
	case *ssa.MakeInterface:
		v := m.val(f, x.X)
		m.setReg(f, x, Iface{[]IfaceAlt{{G: c.True, T: x.X.Type(), V: v}}})
	case *ssa.ChangeInterface:
		m.setReg(f, x, m.val(f, x.X))
	case *ssa.ChangeType:
		m.setReg(f, x, m.val(f, x.X))
	case *ssa.Convert:
		m.setReg(f, x, m.convert(it, x))
	case *ssa.TypeAssert:
		m.setReg(f, x, m.typeAssert(it, x))
	case *ssa.Extract:
		tu := m.val(f, x.Tuple).(Tuple)
		m.setReg(f, x, tu[x.Index])
	case *ssa.Phi:
		m.fail("phi reached in straight-line execution")
	case *ssa.MapUpdate:
		m.mapUpdate(it, m.val(f, x.Map).(Ptr), m.val(f, x.Key), m.val(f, x.Value))
	case *ssa.Lookup:
		if mp, ok := m.val(f, x.X).(Ptr); ok {
			v, okT := m.mapLookup(it, mp, m.val(f, x.Index), x.X.Type().Underlying().(*types.Map).Elem())
			if x.CommaOk {
				m.setReg(f, x, Tuple{v, okT})
			} else {
				m.setReg(f, x, v)
			}
		} else {
			m.fail("string index lookup unsupported")
		}
	case *ssa.Range:
		m.setReg(f, x, m.rangeInit(it, x))
	case *ssa.Next:
		m.setReg(f, x, m.rangeNext(it, x))
	default:
		m.fail("unsupported instruction %T: %s", ins, ins)
	}
}

func (m *Machine) siteOf(ins ssa.Instruction) string {
	p := ins.Pos()
	if p.IsValid() {
		pos := m.Prog.Fset.Position(p)
		return fmt.Sprintf("%s:%d", shortFile(pos.Filename), pos.Line)
	}
	if ins.Parent() != nil {
		return ins.Parent().Name()
	}
	return "?"
}

func shortFile(s string) string {
	n := 0
	for i := len(s) - 1; i >= 0; i-- {
		if s[i] == '/' {
			n++
			if n == 2 {
				return s[i+1:]
			}
		}
	}
	return s
}

// selectByIndex returns elems[idx] as an ite chain with a bounds obligation.
func (m *Machine) selectByIndex(it *Item, elems []Value, idx T, msg string) Value {
	c := m.C
	if k, ok := idx.Int64(); ok {
		if k < 0 || int(k) >= len(elems) {
			m.Oblige("panic", msg, it.G, m.posOf(it))
			it.G = c.False
			if len(elems) > 0 {
				return elems[0]
			}
			return nil
		}
		return elems[k]
	}
	in := c.And(m.sle(m.IntC(0), idx), m.slt(idx, m.IntC(int64(len(elems)))))
	m.obligePanic(it, c.Not(in), msg)
	var res Value
	for i := len(elems) - 1; i >= 0; i-- {
		if res == nil {
			res = elems[i]
		} else {
			res = m.Merge(c.Eq(idx, m.IntC(int64(i))), elems[i], res)
		}
	}
	return res
}

func (m *Machine) indexAddr(it *Item, x *ssa.IndexAddr) Value {
	f := it.F
	c := m.C
	idx := m.val(f, x.Index).(T)
	switch bv := m.val(f, x.X).(type) {
	case SliceV:
		et := x.X.Type().Underlying().(*types.Slice).Elem()
		esz := cellCount(et)
		in := c.And(m.sle(m.IntC(0), idx), m.slt(idx, bv.Len))
		m.obligePanic(it, c.Not(in), "index out of range")
		return m.offsetPtr(it, bv.Base, idx, esz, bv.Len)
	case Ptr: // pointer to array
		at := x.X.Type().Underlying().(*types.Pointer).Elem().Underlying().(*types.Array)
		esz := cellCount(at.Elem())
		n := m.IntC(at.Len())
		in := c.And(m.sle(m.IntC(0), idx), m.slt(idx, n))
		m.obligePanic(it, c.Not(in), "index out of range")
		return m.offsetPtr(it, bv, idx, esz, n)
	case Text:
		// one byte of an abstract text: an arbitrary byte value, constrained only by what the abstraction knows
		// about line feeds (no line feed in the text: the byte is not one; nothing but line feeds: it is one)
		in := c.And(m.sle(m.IntC(0), idx), m.slt(idx, bv.N))
		m.obligePanic(it, c.Not(in), "index out of range")
		o := m.NewObject(types.Typ[types.Uint8], m.siteOf(x))
		by := m.Fresh("textbyte", m.intSort())
		lf := m.IntC(10)
		m.Assume(c.And(m.sle(m.IntC(0), by), m.sle(by, m.IntC(255))), "a byte of a text is in 0..255")
		m.Assume(c.Implies(c.Eq(bv.NL, m.IntC(0)), c.Not(c.Eq(by, lf))), "a text without line feeds has no line-feed byte")
		m.Assume(c.Implies(c.Eq(bv.NL, bv.N), c.Eq(by, lf)), "a text of line feeds only has only line-feed bytes")
		m.heap.Set(o, 0, by)
		return single(o, 0, c)
	}
	m.fail("IndexAddr on %T", m.val(f, x.X))
	return nil
}

// offsetPtr adds idx*esz to every alternative; symbolic idx is expanded over [0,limit).
func (m *Machine) offsetPtr(it *Item, p Ptr, idx T, esz int, limit T) Ptr {
	c := m.C
	var out []PtrAlt
	if k, ok := idx.Int64(); ok {
		for _, a := range p.Alts {
			off := a.Off + int(k)*esz
			if k < 0 || off+esz > m.heap.NumCells(a.Obj) {
				continue // out of range under this alt: covered by bounds obligation
			}
			out = append(out, PtrAlt{a.G, a.Obj, off})
		}
		return Ptr{out}
	}
	lim := -1
	if k, ok := limit.Int64(); ok {
		lim = int(k)
	}
	for _, a := range p.Alts {
		maxN := (m.heap.NumCells(a.Obj) - a.Off) / max1(esz)
		if lim >= 0 && lim < maxN {
			maxN = lim
		}
		for i := 0; i < maxN; i++ {
			g := c.And(a.G, c.Eq(idx, m.IntC(int64(i))))
			if c.And(it.G, g).IsFalse() {
				continue
			}
			out = append(out, PtrAlt{g, a.Obj, a.Off + i*esz})
		}
	}
	return Ptr{out}
}

func max1(x int) int {
	if x < 1 {
		return 1
	}
	return x
}

func (m *Machine) sliceOp(it *Item, x *ssa.Slice) Value {
	f := it.F
	c := m.C
	base := m.val(f, x.X)
	var lo, hi T
	if x.Low != nil {
		lo = m.val(f, x.Low).(T)
	} else {
		lo = m.IntC(0)
	}
	switch bv := base.(type) {
	case Text:
		if x.High != nil {
			hi = m.val(f, x.High).(T)
		} else {
			hi = bv.N
		}
		full := c.And(c.Eq(lo, m.IntC(0)), c.Eq(hi, bv.N))
		if full.IsTrue() {
			return bv
		}
		var nt Text
		if k, ok := bv.W.Int64(); ok && k == 0 {
			// a slice of zero-width content (control bytes, zeroed buffers) has zero width and the exact length
			nt = Text{W: m.IntC(0), N: m.sub(hi, lo), NL: m.IntC(0), CUU: m.IntC(0), ID: c.UF("slice", m.intSort(), bv.ID, lo, hi)}
		} else {
			nt = m.FreshText("slice")
			m.Assume(c.And(m.sle(nt.W, bv.W)), "text slice: width<=width of whole")
			nt.N = m.sub(hi, lo)
			nt.NL = m.IntC(0)
		}
		return m.Merge(full, bv, nt)
	case SliceV:
		if x.High != nil {
			hi = m.val(f, x.High).(T)
		} else {
			hi = bv.Len
		}
		et := x.X.Type().Underlying().(*types.Slice).Elem()
		ok := c.And(m.sle(m.IntC(0), lo), m.sle(lo, hi), m.sle(hi, bv.Cap))
		m.obligePanic(it, c.Not(ok), "slice bounds out of range")
		np := m.offsetPtr(it, bv.Base, lo, cellCount(et), m.add(bv.Cap, m.IntC(1)))
		return SliceV{np, m.sub(hi, lo), m.sub(bv.Cap, lo)}
	case Ptr: // *array
		at := x.X.Type().Underlying().(*types.Pointer).Elem().Underlying().(*types.Array)
		n := m.IntC(at.Len())
		if x.High != nil {
			hi = m.val(f, x.High).(T)
		} else {
			hi = n
		}
		if isByteSlice(x.Type()) {
			t := m.EmptyText()
			t.N = m.sub(hi, lo)
			return t
		}
		np := m.offsetPtr(it, bv, lo, cellCount(at.Elem()), m.add(n, m.IntC(1)))
		return SliceV{np, m.sub(hi, lo), m.sub(n, lo)}
	}
	m.fail("Slice on %T", base)
	return nil
}

func (m *Machine) typeAssert(it *Item, x *ssa.TypeAssert) Value {
	c := m.C
	iv := m.val(it.F, x.X).(Iface)
	_, toIface := x.AssertedType.Underlying().(*types.Interface)
	var okG []T
	var res Value
	if toIface {
		var alts []IfaceAlt
		for _, a := range iv.Alts {
			if m.implements(a, x.AssertedType) {
				alts = append(alts, a)
				okG = append(okG, a.G)
			}
		}
		res = Iface{alts}
	} else {
		for _, a := range iv.Alts {
			if a.S == "" && types.Identical(a.T, x.AssertedType) {
				okG = append(okG, a.G)
				if res == nil {
					res = a.V
				} else {
					res = m.Merge(a.G, a.V, res)
				}
			}
		}
		if res == nil {
			res = m.ZeroValue(x.AssertedType)
		}
	}
	ok := c.Or(okG...)
	if x.CommaOk {
		if !toIface {
			res = m.Merge(ok, res, m.ZeroValue(x.AssertedType))
		}
		return Tuple{res, ok}
	}
	m.obligePanic(it, c.Not(ok), "failed type assertion to "+x.AssertedType.String())
	return res
}

func (m *Machine) implements(a IfaceAlt, iface types.Type) bool {
	it := iface.Underlying().(*types.Interface)
	if a.S != "" {
		return m.synthImplements(a, it)
	}
	return types.Implements(a.T, it)
}

// ---- maps: objects whose cells are triples (present T, key Value, value Value)

func (m *Machine) NewMap(mt *types.Map, site string) *Object {
	return m.canonObject(Object{Kind: KMap, Site: site, T: mt}, []Value{})
}

func (m *Machine) keyEq(a, b Value) T { return m.valueEq(a, b) }

func (m *Machine) mapUpdate(it *Item, mp Ptr, k, v Value) {
	c := m.C
	m.obligePanic(it, c.Not(m.ptrNonNil(mp)), "assignment to entry in nil map")
	for _, a := range mp.Alts {
		g := c.And(it.G, a.G)
		if g.IsFalse() {
			continue
		}
		n := m.heap.NumCells(a.Obj) / 3
		var found []T
		for e := 0; e < n; e++ {
			pres := m.heap.Get(a.Obj, 3*e).(T)
			eq := c.And(pres, m.keyEq(m.heap.Get(a.Obj, 3*e+1), k))
			if eq.IsFalse() {
				continue
			}
			found = append(found, eq)
			m.heap.Set(a.Obj, 3*e+2, m.Merge(c.And(g, eq), v, m.heap.Get(a.Obj, 3*e+2)))
		}
		fnd := c.Or(found...)
		ng := c.And(g, c.Not(fnd))
		if !ng.IsFalse() {
			m.heap.Append(a.Obj, ng, k, v)
		}
	}
}

func (m *Machine) mapDelete(it *Item, mp Ptr, k Value) {
	c := m.C
	for _, a := range mp.Alts {
		g := c.And(it.G, a.G)
		n := m.heap.NumCells(a.Obj) / 3
		for e := 0; e < n; e++ {
			pres := m.heap.Get(a.Obj, 3*e).(T)
			eq := c.And(pres, m.keyEq(m.heap.Get(a.Obj, 3*e+1), k))
			if eq.IsFalse() {
				continue
			}
			m.heap.Set(a.Obj, 3*e, c.And(pres, c.Not(c.And(g, eq))))
		}
	}
}

func (m *Machine) mapLookup(it *Item, mp Ptr, k Value, vt types.Type) (Value, T) {
	c := m.C
	res := m.ZeroValue(vt)
	var oks []T
	for _, a := range mp.Alts {
		n := m.heap.NumCells(a.Obj) / 3
		for e := 0; e < n; e++ {
			pres := m.heap.Get(a.Obj, 3*e).(T)
			eq := c.And(a.G, pres, m.keyEq(m.heap.Get(a.Obj, 3*e+1), k))
			if eq.IsFalse() {
				continue
			}
			oks = append(oks, eq)
			res = m.Merge(eq, m.heap.Get(a.Obj, 3*e+2), res)
		}
	}
	return res, c.Or(oks...)
}

func (m *Machine) mapLen(mp Ptr) T {
	c := m.C
	n := m.IntC(0)
	for _, a := range mp.Alts {
		cnt := m.heap.NumCells(a.Obj) / 3
		for e := 0; e < cnt; e++ {
			pres := c.And(a.G, m.heap.Get(a.Obj, 3*e).(T))
			n = m.add(n, c.Ite(pres, m.IntC(1), m.IntC(0)))
		}
	}
	return n
}

// Range over a map: snapshot the entries (insertion order; Go's order is unspecified).
type rangeState struct {
	entries []rangeEntry
}
type rangeEntry struct {
	g    T
	k, v Value
}

func (m *Machine) rangeInit(it *Item, x *ssa.Range) Value {
	mp, ok := m.val(it.F, x.X).(Ptr)
	if !ok {
		m.fail("range over string unsupported")
	}
	rs := &rangeState{}
	for _, a := range mp.Alts {
		n := m.heap.NumCells(a.Obj) / 3
		for e := 0; e < n; e++ {
			pres := m.C.And(a.G, m.heap.Get(a.Obj, 3*e).(T))
			if pres.IsFalse() {
				continue
			}
			rs.entries = append(rs.entries, rangeEntry{pres, m.heap.Get(a.Obj, 3*e+1), m.heap.Get(a.Obj, 3*e+2)})
		}
	}
	m.Assumptions["range over map iterates in insertion order (Go leaves the order unspecified; the ranged-over code is assumed order-insensitive)"] = true
	// iterator object: a plain object with one cell holding the position
	o := m.canonObject(Object{Kind: KSynth, Site: "range", Name: "rangeiter"}, []Value{m.IntC(0)})
	m.rangeStates[o] = rs
	return single(o, 0, m.C)
}

// rangeNext: position is concrete per unrolled iteration (kept as constant cell under guards).
func (m *Machine) rangeNext(it *Item, x *ssa.Next) Value {
	c := m.C
	p := m.val(it.F, x.Iter).(Ptr)
	if len(p.Alts) != 1 {
		m.fail("range iterator union")
	}
	o := p.Alts[0].Obj
	rs := m.rangeStates[o]
	posT := m.heap.Get(o, 0).(T)
	// The iterator advances to the next *present* entry. Encode position symbolically:
	// pos ranges over 0..n; next = first e >= pos with entry guard true.
	n := len(rs.entries)
	mt := x.Iter.(*ssa.Range).X.Type().Underlying().(*types.Map)
	var ok T = c.False
	var k Value = m.ZeroValue(mt.Key())
	var v Value = m.ZeroValue(mt.Elem())
	var newPos T = m.IntC(int64(n))
	for e := n - 1; e >= 0; e-- {
		cand := c.And(m.sle(posT, m.IntC(int64(e))), rs.entries[e].g)
		ok = c.Or(cand, ok)
		k = m.Merge(cand, rs.entries[e].k, k)
		v = m.Merge(cand, rs.entries[e].v, v)
		newPos = c.Ite(cand, m.IntC(int64(e+1)), newPos)
	}
	m.heap.Set(o, 0, m.Merge(it.G, newPos, posT))
	return Tuple{ok, k, v}
}
