// Package exec: symbolic interpreter for go/ssa on guarded values.
package exec

import (
	"fmt"
	"go/types"

	"gosmt/sym"

	"golang.org/x/tools/go/ssa"
)

type T = *sym.Term

// Value is one of: T (scalar), Ptr, SliceV, Iface, FuncV, Text, StructV, ArrayV, Tuple, nil (undefined).
type Value interface{}

type PtrAlt struct {
	G   T
	Obj *Object
	Off int
}

// Ptr is a guarded union of concrete locations; no alternative true = nil.
type Ptr struct{ Alts []PtrAlt }

type SliceV struct {
	Base     Ptr
	Len, Cap T
}

type IfaceAlt struct {
	G T
	T types.Type // dynamic type (nil for synthetic values)
	S string     // synthetic kind ("" for real Go values)
	V Value
}
type Iface struct{ Alts []IfaceAlt }

type FuncAlt struct {
	G       T
	Fn      *ssa.Function
	Binds   []Value
	Builtin string // engine-implemented closure (e.g. ctx cancel)
}
type FuncV struct{ Alts []FuncAlt }

// Text abstracts string and []byte: display width, byte length, newline count,
// cursor-up total (numbers appended with strconv.AppendInt), content identity.
type Text struct {
	W, N, NL, CUU, ID T
	Lit               *string // concrete content when known (constants and their concatenations)
	SEQ, K            T       // order fingerprint: base-16 digits of the marked pieces in order, and their number (nil = none)
}

type StructV struct{ F []Value }
type ArrayV struct{ E []Value }
type Tuple []Value

type ObjKind int

const (
	KPlain ObjKind = iota
	KChan
	KMap
	KCtx
	KSynth
)

type Object struct {
	ID       int
	Kind     ObjKind
	Site     string
	T        types.Type // element/alloc type
	NCells   int
	Children []*Object // ctx children
	ElemSize int       // arrays backing slices
	Name     string
	Cap      int // channel physical slots
}

func (o *Object) String() string {
	if o == nil {
		return "nil"
	}
	return fmt.Sprintf("o%d<%s>", o.ID, o.Site)
}

// Heap is a layered store: object -> cells (copy-on-write per layer).
type Heap struct {
	parent *Heap
	cells  map[*Object][]Value
}

func NewHeap(parent *Heap) *Heap { return &Heap{parent: parent, cells: map[*Object][]Value{}} }

func (h *Heap) lookup(o *Object) []Value {
	for x := h; x != nil; x = x.parent {
		if c, ok := x.cells[o]; ok {
			return c
		}
	}
	return nil
}

func (h *Heap) Get(o *Object, i int) Value {
	c := h.lookup(o)
	if c == nil || i >= len(c) {
		panic(fmt.Sprintf("heap: object %v has no cell %d (have %d)", o, i, len(c)))
	}
	return c[i]
}

func (h *Heap) own(o *Object) []Value {
	if c, ok := h.cells[o]; ok {
		return c
	}
	src := h.lookup(o)
	c := make([]Value, len(src))
	copy(c, src)
	h.cells[o] = c
	return c
}

func (h *Heap) Set(o *Object, i int, v Value) {
	c := h.own(o)
	if i >= len(c) {
		panic(fmt.Sprintf("heap: set object %v cell %d out of range %d", o, i, len(c)))
	}
	c[i] = v
}

func (h *Heap) NumCells(o *Object) int { return len(h.lookup(o)) }

func (h *Heap) Append(o *Object, vs ...Value) {
	c := h.own(o)
	h.cells[o] = append(c, vs...)
}

func (h *Heap) Init(o *Object, cells []Value) { h.cells[o] = cells }

// ---- merging

func (m *Machine) mergePtr(g T, a, b Ptr) Ptr {
	c := m.C
	var out []PtrAlt
	idx := map[[2]int]int{}
	add := func(gg T, al PtrAlt) {
		ng := c.And(gg, al.G)
		if ng.IsFalse() {
			return
		}
		k := [2]int{al.Obj.ID, al.Off}
		if i, ok := idx[k]; ok {
			out[i].G = c.Or(out[i].G, ng)
			return
		}
		idx[k] = len(out)
		out = append(out, PtrAlt{ng, al.Obj, al.Off})
	}
	for _, al := range a.Alts {
		add(g, al)
	}
	ng := c.Not(g)
	for _, al := range b.Alts {
		add(ng, al)
	}
	return Ptr{out}
}

// Merge returns ite(g, a, b) structurally.
func (m *Machine) Merge(g T, a, b Value) Value {
	if g.IsTrue() {
		return a
	}
	if g.IsFalse() {
		return b
	}
	if a == nil {
		return b
	}
	if b == nil {
		return a
	}
	c := m.C
	switch x := a.(type) {
	case T:
		y, ok := b.(T)
		if !ok {
			panic(fmt.Sprintf("merge: scalar vs %T", b))
		}
		if x == y {
			return x
		}
		return c.Ite(g, x, y)
	case Ptr:
		return m.mergePtr(g, x, b.(Ptr))
	case SliceV:
		y := b.(SliceV)
		return SliceV{m.mergePtr(g, x.Base, y.Base), c.Ite(g, x.Len, y.Len), c.Ite(g, x.Cap, y.Cap)}
	case Text:
		y := b.(Text)
		var lit *string
		if x.Lit != nil && y.Lit != nil && *x.Lit == *y.Lit {
			lit = x.Lit
		}
		xs, xk := m.seqOf(x)
		ys, yk := m.seqOf(y)
		return Text{c.Ite(g, x.W, y.W), c.Ite(g, x.N, y.N), c.Ite(g, x.NL, y.NL), c.Ite(g, x.CUU, y.CUU), c.Ite(g, x.ID, y.ID), lit, c.Ite(g, xs, ys), c.Ite(g, xk, yk)}
	case StructV:
		y := b.(StructV)
		out := make([]Value, len(x.F))
		for i := range x.F {
			out[i] = m.Merge(g, x.F[i], y.F[i])
		}
		return StructV{out}
	case ArrayV:
		y := b.(ArrayV)
		out := make([]Value, len(x.E))
		for i := range x.E {
			out[i] = m.Merge(g, x.E[i], y.E[i])
		}
		return ArrayV{out}
	case Tuple:
		y := b.(Tuple)
		out := make(Tuple, len(x))
		for i := range x {
			out[i] = m.Merge(g, x[i], y[i])
		}
		return out
	case Iface:
		y := b.(Iface)
		var out []IfaceAlt
		add := func(gg T, al IfaceAlt, first bool) {
			ng := c.And(gg, al.G)
			if ng.IsFalse() {
				return
			}
			for i := range out {
				if out[i].S == al.S && sameType(out[i].T, al.T) && sameShape(out[i].V, al.V) {
					if first {
						panic("merge iface: duplicate type in one value")
					}
					// out[i] came from a (guard g side)
					out[i].V = m.Merge(out[i].G, out[i].V, al.V)
					out[i].G = c.Or(out[i].G, ng)
					return
				}
			}
			out = append(out, IfaceAlt{ng, al.T, al.S, al.V})
		}
		for _, al := range x.Alts {
			add(g, al, false)
		}
		na := len(out)
		_ = na
		ng := c.Not(g)
		for _, al := range y.Alts {
			add(ng, al, false)
		}
		return Iface{out}
	case FuncV:
		y := b.(FuncV)
		var out []FuncAlt
		add := func(gg T, al FuncAlt) {
			ng := c.And(gg, al.G)
			if ng.IsFalse() {
				return
			}
			for i := range out {
				if out[i].Fn == al.Fn && out[i].Builtin == al.Builtin && len(out[i].Binds) == len(al.Binds) {
					ok := true
					for j := range al.Binds {
						if !sameShape(out[i].Binds[j], al.Binds[j]) {
							ok = false
						}
					}
					if ok {
						nb := make([]Value, len(al.Binds))
						for j := range al.Binds {
							nb[j] = m.Merge(out[i].G, out[i].Binds[j], al.Binds[j])
						}
						out[i].Binds = nb
						out[i].G = c.Or(out[i].G, ng)
						return
					}
				}
			}
			out = append(out, FuncAlt{ng, al.Fn, al.Binds, al.Builtin})
		}
		for _, al := range x.Alts {
			add(g, al)
		}
		ng := c.Not(g)
		for _, al := range y.Alts {
			add(ng, al)
		}
		return FuncV{out}
	}
	panic(fmt.Sprintf("merge: unsupported %T", a))
}

func sameType(a, b types.Type) bool {
	if a == nil || b == nil {
		return a == nil && b == nil
	}
	return types.Identical(a, b)
}

// sameShape reports whether two values can be merged structurally.
func sameShape(a, b Value) bool {
	if a == nil || b == nil {
		return true
	}
	switch x := a.(type) {
	case T:
		y, ok := b.(T)
		return ok && x.Sort == y.Sort
	case Ptr:
		_, ok := b.(Ptr)
		return ok
	case SliceV:
		_, ok := b.(SliceV)
		return ok
	case Text:
		_, ok := b.(Text)
		return ok
	case Iface:
		_, ok := b.(Iface)
		return ok
	case FuncV:
		_, ok := b.(FuncV)
		return ok
	case StructV:
		y, ok := b.(StructV)
		if !ok || len(x.F) != len(y.F) {
			return false
		}
		for i := range x.F {
			if !sameShape(x.F[i], y.F[i]) {
				return false
			}
		}
		return true
	case ArrayV:
		y, ok := b.(ArrayV)
		if !ok || len(x.E) != len(y.E) {
			return false
		}
		for i := range x.E {
			if !sameShape(x.E[i], y.E[i]) {
				return false
			}
		}
		return true
	case Tuple:
		y, ok := b.(Tuple)
		return ok && len(x) == len(y)
	}
	return false
}

// Restrict conjoins g onto the guards of a reference value (used when a value only exists under g).
func (m *Machine) ptrNonNil(p Ptr) T {
	var gs []T
	for _, a := range p.Alts {
		gs = append(gs, a.G)
	}
	return m.C.Or(gs...)
}

func (m *Machine) ifaceNonNil(v Iface) T {
	var gs []T
	for _, a := range v.Alts {
		gs = append(gs, a.G)
	}
	return m.C.Or(gs...)
}

func (m *Machine) funcNonNil(v FuncV) T {
	var gs []T
	for _, a := range v.Alts {
		gs = append(gs, a.G)
	}
	return m.C.Or(gs...)
}

// PtrEq: equality of two pointer unions.
func (m *Machine) PtrEq(a, b Ptr) T {
	c := m.C
	var hits []T
	for _, x := range a.Alts {
		for _, y := range b.Alts {
			if x.Obj == y.Obj && x.Off == y.Off {
				hits = append(hits, c.And(x.G, y.G))
			}
		}
	}
	bothNil := c.And(c.Not(m.ptrNonNil(a)), c.Not(m.ptrNonNil(b)))
	return c.Or(append(hits, bothNil)...)
}

func single(o *Object, off int, c *sym.Ctx) Ptr {
	return Ptr{[]PtrAlt{{c.True, o, off}}}
}

// ---- simplification of values under a path guard

type litSet struct {
	ids map[int]bool
	eq  map[int]*sym.Term // variable id -> constant it equals
}

// lits returns the cases of g: g is equivalent to the disjunction of the returned literal sets
// (one level of Or inside the top-level And is expanded, up to 16 cases).
func (m *Machine) lits(g T) litSets {
	var conj []T
	if g.Op == sym.OpAnd {
		conj = g.Args
	} else {
		conj = []T{g}
	}
	cases := [][]T{nil}
	var common []T
	for _, a := range conj {
		if a.Op == sym.OpOr && len(cases)*len(a.Args) <= 16 {
			var nc [][]T
			for _, cs := range cases {
				for _, d := range a.Args {
					x := append(append([]T(nil), cs...), d)
					nc = append(nc, x)
				}
			}
			cases = nc
			continue
		}
		common = append(common, a)
	}
	var out litSets
	for _, cs := range cases {
		out = append(out, m.lits1(append(append([]T(nil), common...), cs...)))
	}
	return out
}

type litSets []litSet

func (m *Machine) lits1(conj []T) litSet {
	ls := litSet{ids: map[int]bool{}, eq: map[int]*sym.Term{}}
	var add func(a T)
	add = func(a T) {
		if a.Op == sym.OpAnd {
			for _, x := range a.Args {
				add(x)
			}
			return
		}
		ls.ids[a.ID] = true
		if a.Op == sym.OpEq {
			x, k := a.Args[0], a.Args[1]
			if x.Op == sym.OpConst {
				x, k = k, x
			}
			if k.Op == sym.OpConst && x.Op == sym.OpVar {
				ls.eq[x.ID] = k
			}
		}
	}
	for _, a := range conj {
		add(a)
	}
	return ls
}

// eqRefuted: a is (x = k) and the set contains (x = k') with k' != k.
func (ls litSet) eqRefuted(a T) bool {
	if a.Op != sym.OpEq {
		return false
	}
	x, k := a.Args[0], a.Args[1]
	if x.Op == sym.OpConst {
		x, k = k, x
	}
	if k.Op != sym.OpConst || x.Op != sym.OpVar {
		return false
	}
	if k2, ok := ls.eq[x.ID]; ok && k2 != k {
		return true
	}
	return false
}

// holds over all cases of the guard.
func (m *Machine) holds(lss litSets, cond T) int {
	if cond.IsTrue() {
		return 1
	}
	if cond.IsFalse() {
		return -1
	}
	res := 0
	for i, ls := range lss {
		r := m.holds1(ls, cond)
		if r == 0 {
			return 0
		}
		if i == 0 {
			res = r
		} else if r != res {
			return 0
		}
	}
	return res
}

// holds1: +1 if cond is implied by the literal set, -1 if refuted, 0 unknown (syntactic, one level).
func (m *Machine) holds1(ls litSet, cond T) int {
	m.holdDepth++
	defer func() { m.holdDepth-- }()
	if m.holdDepth > 4 {
		if ls.ids[cond.ID] {
			return 1
		}
		return 0
	}
	if cond.IsTrue() {
		return 1
	}
	if cond.IsFalse() {
		return -1
	}
	if ls.ids[cond.ID] {
		return 1
	}
	if ls.eqRefuted(cond) {
		return -1
	}
	if cond.Op == sym.OpNot {
		switch m.holds1(ls, cond.Args[0]) {
		case 1:
			return -1
		case -1:
			return 1
		}
		return 0
	}
	if n := m.C.Not(cond); ls.ids[n.ID] {
		return -1
	}
	if cond.Op == sym.OpAnd {
		all := true
		for _, a := range cond.Args {
			switch m.holdsLit(ls, a) {
			case -1:
				return -1
			case 0:
				all = false
			}
		}
		if all {
			return 1
		}
	}
	if cond.Op == sym.OpOr {
		none := true
		for _, a := range cond.Args {
			switch m.holdsLit(ls, a) {
			case 1:
				return 1
			case 0:
				none = false
			}
		}
		if none {
			return -1
		}
	}
	return 0
}

func (m *Machine) holdsLit(ls litSet, a T) int {
	if ls.ids[a.ID] {
		return 1
	}
	if ls.eqRefuted(a) {
		return -1
	}
	if a.Op == sym.OpNot {
		if ls.ids[a.Args[0].ID] {
			return -1
		}
		if ls.eqRefuted(a.Args[0]) {
			return 1
		}
		if a.Args[0].Op == sym.OpAnd || a.Args[0].Op == sym.OpOr {
			return -m.holds1(ls, a.Args[0])
		}
		return 0
	}
	if n := m.C.Not(a); ls.ids[n.ID] {
		return -1
	}
	if a.Op == sym.OpAnd || a.Op == sym.OpOr {
		return m.holds1(ls, a)
	}
	return 0
}

func (m *Machine) restrictT(ls litSets, t T) T {
	for i := 0; i < 64 && t.Op == sym.OpIte; i++ {
		switch m.holds(ls, t.Args[0]) {
		case 1:
			t = t.Args[1]
		case -1:
			t = t.Args[2]
		default:
			return t
		}
	}
	if t.Sort == sym.SBool && t.Op != sym.OpConst {
		switch m.holds(ls, t) {
		case 1:
			return m.C.True
		case -1:
			return m.C.False
		}
	}
	return t
}

// Restrict simplifies v assuming the path guard g (syntactic, sound: only uses literals of g).
func (m *Machine) Restrict(g T, v Value) Value {
	if g.IsTrue() || v == nil {
		return v
	}
	return m.restrict(m.lits(g), v)
}

func (m *Machine) restrictPtr(ls litSets, p Ptr) Ptr {
	changed := false
	out := make([]PtrAlt, 0, len(p.Alts))
	for _, a := range p.Alts {
		switch m.holds(ls, a.G) {
		case 1:
			if !a.G.IsTrue() {
				changed = true
			}
			out = append(out, PtrAlt{m.C.True, a.Obj, a.Off})
		case -1:
			changed = true
		default:
			out = append(out, a)
		}
	}
	if !changed {
		return p
	}
	return Ptr{out}
}

func (m *Machine) restrict(ls litSets, v Value) Value {
	switch x := v.(type) {
	case T:
		return m.restrictT(ls, x)
	case Ptr:
		return m.restrictPtr(ls, x)
	case SliceV:
		return SliceV{m.restrictPtr(ls, x.Base), m.restrictT(ls, x.Len), m.restrictT(ls, x.Cap)}
	case Text:
		xs, xk := m.seqOf(x)
		return Text{m.restrictT(ls, x.W), m.restrictT(ls, x.N), m.restrictT(ls, x.NL), m.restrictT(ls, x.CUU), m.restrictT(ls, x.ID), x.Lit, m.restrictT(ls, xs), m.restrictT(ls, xk)}
	case StructV:
		out := make([]Value, len(x.F))
		for i := range x.F {
			out[i] = m.restrict(ls, x.F[i])
		}
		return StructV{out}
	case ArrayV:
		out := make([]Value, len(x.E))
		for i := range x.E {
			out[i] = m.restrict(ls, x.E[i])
		}
		return ArrayV{out}
	case Iface:
		out := make([]IfaceAlt, 0, len(x.Alts))
		for _, a := range x.Alts {
			switch m.holds(ls, a.G) {
			case 1:
				out = append(out, IfaceAlt{m.C.True, a.T, a.S, m.restrict(ls, a.V)})
			case -1:
			default:
				out = append(out, IfaceAlt{a.G, a.T, a.S, a.V})
			}
		}
		return Iface{out}
	case FuncV:
		out := make([]FuncAlt, 0, len(x.Alts))
		for _, a := range x.Alts {
			switch m.holds(ls, a.G) {
			case 1:
				nb := make([]Value, len(a.Binds))
				for i := range a.Binds {
					nb[i] = m.restrict(ls, a.Binds[i])
				}
				out = append(out, FuncAlt{m.C.True, a.Fn, nb, a.Builtin})
			case -1:
			default:
				out = append(out, a)
			}
		}
		return FuncV{out}
	}
	return v
}

func (m *Machine) seqOf(t Text) (T, T) {
	s, k := t.SEQ, t.K
	if s == nil {
		s = m.IntC(0)
	}
	if k == nil {
		k = m.IntC(0)
	}
	return s, k
}
