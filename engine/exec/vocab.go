package exec

import (
	"fmt"
	"go/types"
	"os"
	"strings"

	"gosmt/sym"

	"golang.org/x/tools/go/ssa"
)

// Harness vocabulary: functions named v* defined in the overlay with trivial native bodies.

func (m *Machine) strArg(v Value, fn *ssa.Function, it *Item, idx int) string {
	// string arguments of vocabulary calls must have concrete content (constants and their concatenations)
	if t, ok := v.(Text); ok && t.Lit != nil {
		return *t.Lit
	}
	f := it.F
	ins := f.fi.Fn.Blocks[f.block].Instrs[f.pc]
	var cc *ssa.CallCommon
	switch x := ins.(type) {
	case *ssa.Call:
		cc = x.Common()
	default:
		m.fail("vocabulary call in unexpected position")
	}
	if k, ok := cc.Args[idx].(*ssa.Const); ok {
		return constantString(k)
	}
	m.fail("vocabulary call %s needs a constant string argument", fn.Name())
	return ""
}

func (m *Machine) input(name string, s sym.Sort, typ string) T {
	// the same name always denotes the same value (as in native replay, where values come from vModel[name])
	if m.inputNames == nil {
		m.inputNames = map[string]int{}
	}
	v := m.C.Var(name, s)
	if m.inputNames[name] == 0 {
		m.Inputs = append(m.Inputs, InputVar{Name: name, Term: v, Type: typ})
	}
	m.inputNames[name]++
	return v
}

func (m *Machine) rangeAssume(v T, t types.Type) {
	if !m.IntMode {
		return
	}
	if ii, ok := intInfoOf(t); ok {
		lo, hi := rangeOf(ii)
		m.Assume(m.C.And(m.sle(m.C.IntBig(lo), v), m.sle(v, m.C.IntBig(hi))), "range of "+t.String())
	}
}

func (m *Machine) vocab(name string) (Intrinsic, bool) {
	c := m.C
	switch name {
	case "vInt64", "vInt", "vUint":
		return func(m *Machine, wl *worklist, it *Item, fn *ssa.Function, args []Value, rr int) bool {
			nm := m.strArg(args[0], fn, it, 0)
			v := m.input(nm, m.intSort(), name[1:])
			m.rangeAssume(v, fn.Signature.Results().At(0).Type())
			m.finishInline(it, rr, v)
			return false
		}, true
	case "vBool":
		return func(m *Machine, wl *worklist, it *Item, fn *ssa.Function, args []Value, rr int) bool {
			nm := m.strArg(args[0], fn, it, 0)
			m.finishInline(it, rr, m.input(nm, sym.SBool, "Bool"))
			return false
		}, true
	case "vText", "vBytes":
		// symbolic text: attributes become inputs name.w, name.n, name.nl
		return func(m *Machine, wl *worklist, it *Item, fn *ssa.Function, args []Value, rr int) bool {
			nm := m.strArg(args[0], fn, it, 0)
			w := m.input(nm+".w", m.intSort(), "Int")
			n := m.input(nm+".n", m.intSort(), "Int")
			id := m.input(nm+".id", m.intSort(), "Int")
			z := m.IntC(0)
			m.Assume(c.And(m.sle(z, w), m.sle(z, n), m.sle(w, m.IntC(1<<16)), m.sle(n, m.IntC(1<<20)), c.Implies(c.Eq(n, z), c.Eq(w, z)), m.sle(m.IntC(1<<41), id)), "text input "+nm)
			m.finishInline(it, rr, Text{W: w, N: n, NL: z, CUU: z, ID: id})
			return false
		}, true
	case "vMakeText":
		// vMakeText(width, newlines int) string : a text with exactly these attributes
		return func(m *Machine, wl *worklist, it *Item, fn *ssa.Function, args []Value, rr int) bool {
			w, nl := args[0].(T), args[1].(T)
			n := m.add(w, nl)
			m.finishInline(it, rr, Text{W: w, N: n, NL: nl, CUU: m.IntC(0), ID: c.UF("mk", m.intSort(), w, nl)})
			return false
		}, true
	case "vMarkText":
		// vMarkText(width, newlines, digit): like vMakeText, and the piece carries an order mark (digit 1..15)
		return func(m *Machine, wl *worklist, it *Item, fn *ssa.Function, args []Value, rr int) bool {
			w, nl, d := args[0].(T), args[1].(T), args[2].(T)
			n := m.add(w, nl)
			m.finishInline(it, rr, Text{W: w, N: n, NL: nl, CUU: m.IntC(0), ID: c.UF("mk", m.intSort(), w, nl), SEQ: d, K: m.IntC(1)})
			return false
		}, true
	case "vTextSeq":
		return func(m *Machine, wl *worklist, it *Item, fn *ssa.Function, args []Value, rr int) bool {
			s, _ := m.seqOf(args[0].(Text))
			m.finishInline(it, rr, s)
			return false
		}, true
	case "vTextWidth", "vTextLen", "vTextNL", "vTextCUU", "vTextID":
		return func(m *Machine, wl *worklist, it *Item, fn *ssa.Function, args []Value, rr int) bool {
			t := args[0].(Text)
			var r T
			switch name {
			case "vTextWidth":
				r = t.W
			case "vTextLen":
				r = t.N
			case "vTextNL":
				r = t.NL
			case "vTextCUU":
				r = t.CUU
			case "vTextID":
				r = t.ID
			}
			m.finishInline(it, rr, r)
			return false
		}, true
	case "vAssume":
		return func(m *Machine, wl *worklist, it *Item, fn *ssa.Function, args []Value, rr int) bool {
			m.AssumeUnder(it.G, args[0].(T), "harness assumption at "+shortPos(m.posOf(it)))
			it.G = c.And(it.G, args[0].(T))
			m.finishInline(it, rr, nil)
			return false
		}, true
	case "vAssert":
		return func(m *Machine, wl *worklist, it *Item, fn *ssa.Function, args []Value, rr int) bool {
			id := m.strArg(args[1], fn, it, 1)
			m.Oblige("assert", id, c.And(it.G, c.Not(args[0].(T))), m.posOf(it))
			m.NAsserts++
			m.finishInline(it, rr, nil)
			return false
		}, true
	case "vCover":
		return func(m *Machine, wl *worklist, it *Item, fn *ssa.Function, args []Value, rr int) bool {
			id := m.strArg(args[0], fn, it, 0)
			m.Oblige("cover", id, it.G, m.posOf(it))
			m.finishInline(it, rr, nil)
			return false
		}, true
	case "vYield":
		return visibleIntrinsic, true
	case "vUnwind":
		return func(m *Machine, wl *worklist, it *Item, fn *ssa.Function, args []Value, rr int) bool {
			k, ok := args[0].(T).Int64()
			if !ok {
				m.fail("vUnwind needs a constant")
			}
			m.Unwind = int(k)
			m.finishInline(it, rr, nil)
			return false
		}, true
	case "vSteps":
		return func(m *Machine, wl *worklist, it *Item, fn *ssa.Function, args []Value, rr int) bool {
			k, _ := args[0].(T).Int64()
			m.MaxSteps = int(k)
			m.finishInline(it, rr, nil)
			return false
		}, true
	case "vParam":
		// vParam(name): a concrete scenario parameter chosen by the driver (one run per value)
		return func(m *Machine, wl *worklist, it *Item, fn *ssa.Function, args []Value, rr int) bool {
			nm := m.strArg(args[0], fn, it, 0)
			v, ok := m.Params[nm]
			if !ok {
				m.fail("scenario parameter %q not supplied", nm)
			}
			m.finishInline(it, rr, m.IntC(v))
			return false
		}, true
	case "vMulDiffWithin":
		// vMulDiffWithin(a, b, c, d, k, bound): k*|a*b - c*d| <= bound over the mathematical integers
		// (natively computed with math/big so that the oracle cannot wrap where the engine's does not)
		return func(m *Machine, wl *worklist, it *Item, fn *ssa.Function, args []Value, rr int) bool {
			if !m.IntMode {
				m.fail("vMulDiffWithin needs int mode")
			}
			a, b, cc, d, k, bound := args[0].(T), args[1].(T), args[2].(T), args[3].(T), args[4].(T), args[5].(T)
			diff := m.sub(c.Bin(sym.OpMul, a, b), c.Bin(sym.OpMul, cc, d))
			kd := c.Bin(sym.OpMul, k, diff)
			r := c.And(m.sle(kd, bound), m.sle(m.sub(m.IntC(0), kd), bound))
			m.finishInline(it, rr, r)
			return false
		}, true
	case "vStartAgo":
		// vStartAgo(ns): a start time such that every later time.Since reports exactly ns (natively: now-ns, so
		// that time.Since reports ns plus the few microseconds the call takes)
		return func(m *Machine, wl *worklist, it *Item, fn *ssa.Function, args []Value, rr int) bool {
			m.SinceFixed = args[0].(T)
			m.Assumptions["time.Since(start) returns exactly the elapsed time the harness chose (vStartAgo); natively it is that time plus the duration of the call"] = true
			tt := m.lookupType("time", "Time")
			v := m.ZeroValue(tt).(StructV)
			v.F[1] = m.Fresh("now", m.intSort())
			m.finishInline(it, rr, v)
			return false
		}, true
	case "vMarkCursorUp":
		return func(m *Machine, wl *worklist, it *Item, fn *ssa.Function, args []Value, rr int) bool {
			m.MarkCUU = true
			m.finishInline(it, rr, nil)
			return false
		}, true
	case "vSincePositive":
		return func(m *Machine, wl *worklist, it *Item, fn *ssa.Function, args []Value, rr int) bool {
			m.SincePositive = true
			m.finishInline(it, rr, nil)
			return false
		}, true
	case "vSliceCap":
		return func(m *Machine, wl *worklist, it *Item, fn *ssa.Function, args []Value, rr int) bool {
			k, _ := args[0].(T).Int64()
			m.SliceCap = int(k)
			m.finishInline(it, rr, nil)
			return false
		}, true
	case "vSymbolicSchedule":
		return func(m *Machine, wl *worklist, it *Item, fn *ssa.Function, args []Value, rr int) bool {
			b, _ := args[0].(T).Int64()
			_ = b
			m.Deterministic = args[0].(T).IsFalse()
			m.finishInline(it, rr, nil)
			return false
		}, true
	case "vGhostCount":
		// vGhostCount(tag string) int : number of ghost log records with this tag
		return func(m *Machine, wl *worklist, it *Item, fn *ssa.Function, args []Value, rr int) bool {
			tag := m.strArg(args[0], fn, it, 0)
			n := 0
			for _, r := range m.ghostLog {
				if r.tag == tag {
					n++
				}
			}
			m.finishInline(it, rr, m.IntC(int64(n)))
			return false
		}, true
	case "vGhostInt", "vGhostFloat":
		// vGhostInt(tag string, rec, idx int) : idx-th value of the rec-th record with this tag
		return func(m *Machine, wl *worklist, it *Item, fn *ssa.Function, args []Value, rr int) bool {
			tag := m.strArg(args[0], fn, it, 0)
			ri, _ := args[1].(T).Int64()
			vi, _ := args[2].(T).Int64()
			k := int64(0)
			for _, r := range m.ghostLog {
				if r.tag == tag {
					if k == ri {
						m.finishInline(it, rr, r.vals[vi])
						return false
					}
					k++
				}
			}
			m.fail("ghost record %s #%d not found", tag, ri)
			return false
		}, true
	case "vGhostPut":
		// vGhostPut(tag string, v int64): append to the ghost array tag (guarded by the path)
		return func(m *Machine, wl *worklist, it *Item, fn *ssa.Function, args []Value, rr int) bool {
			tag := m.strArg(args[0], fn, it, 0)
			m.ghostLog = append(m.ghostLog, ghostRec{it.G, "put:" + tag, []Value{args[1]}})
			m.finishInline(it, rr, nil)
			return false
		}, true
	case "vGhostPutF":
		return func(m *Machine, wl *worklist, it *Item, fn *ssa.Function, args []Value, rr int) bool {
			tag := m.strArg(args[0], fn, it, 0)
			m.ghostLog = append(m.ghostLog, ghostRec{it.G, "putf:" + tag, []Value{args[1]}})
			m.finishInline(it, rr, nil)
			return false
		}, true
	case "vTrace":
		// debugging aid: print the (restricted) value of an int expression when executed (no effect on the run)
		return func(m *Machine, wl *worklist, it *Item, fn *ssa.Function, args []Value, rr int) bool {
			tag := m.strArg(args[0], fn, it, 0)
			if os.Getenv("VCHECK_VTRACE") != "" {
				fmt.Fprintf(os.Stderr, "vTrace step=%d g=%s %s = %s\n", m.step, it.Gor.Name, tag, c.StringDeep(m.Restrict(it.G, args[1]).(T), 4))
			}
			m.finishInline(it, rr, nil)
			return false
		}, true
	case "vGhostLen":
		// number of records put under this tag along the current path
		return func(m *Machine, wl *worklist, it *Item, fn *ssa.Function, args []Value, rr int) bool {
			tag := m.strArg(args[0], fn, it, 0)
			n := m.IntC(0)
			for _, r := range m.ghostLog {
				if r.tag == "put:"+tag || r.tag == "putf:"+tag {
					n = m.add(n, c.Ite(r.g, m.IntC(1), m.IntC(0)))
				}
			}
			m.finishInline(it, rr, m.Restrict(it.G, n))
			return false
		}, true
	case "vGhostAt", "vGhostAtF":
		// vGhostAt(tag, i): the i-th record (counting only records whose guard holds on this path); i constant
		return func(m *Machine, wl *worklist, it *Item, fn *ssa.Function, args []Value, rr int) bool {
			tag := m.strArg(args[0], fn, it, 0)
			want, _ := args[1].(T).Int64()
			pre := "put:"
			var res Value = m.IntC(0)
			if name == "vGhostAtF" {
				pre = "putf:"
				res = m.ZeroValue(types.Typ[types.Float64])
			}
			// position of each record along the path = number of earlier records whose guard holds
			cnt := m.IntC(0)
			for _, r := range m.ghostLog {
				if r.tag != pre+tag {
					continue
				}
				here := c.And(r.g, c.Eq(cnt, m.IntC(want)))
				res = m.Merge(here, r.vals[0], res)
				cnt = m.add(cnt, c.Ite(r.g, m.IntC(1), m.IntC(0)))
			}
			m.finishInline(it, rr, m.Restrict(it.G, res))
			return false
		}, true
	case "vNoWrap":
		// marker used by harnesses to document intent; no-op
		return func(m *Machine, wl *worklist, it *Item, fn *ssa.Function, args []Value, rr int) bool {
			m.finishInline(it, rr, nil)
			return false
		}, true
	}
	if strings.HasPrefix(name, "vm") || strings.HasPrefix(name, "vh") || strings.HasPrefix(name, "vs") || strings.HasPrefix(name, "vx") {
		return nil, false // models and harness entry points are ordinary Go
	}
	return nil, false
}

// isVisibleCall reports whether a call is a scheduling point.
func (m *Machine) isVisibleCall(f *Frame, cc *ssa.CallCommon, fnv Value) bool {
	if cc.IsInvoke() {
		return false
	}
	switch callee := cc.Value.(type) {
	case *ssa.Builtin:
		return callee.Name() == "close"
	case *ssa.Function:
		switch callee.String() {
		case "(*sync.WaitGroup).Add", "(*sync.WaitGroup).Done", "(*sync.WaitGroup).Wait":
			return true
		}
		return callee.Name() == "vYield"
	}
	if fv, ok := fnv.(FuncV); ok && len(fv.Alts) > 0 {
		all := true
		any := false
		for _, a := range fv.Alts {
			if a.Builtin == "ctxcancel" {
				any = true
			} else {
				all = false
			}
		}
		if any && !all {
			m.fail("call through func value mixing cancel functions and ordinary functions")
		}
		return all
	}
	return false
}

// RunInits executes the init functions of the repository's packages (dependencies' inits are skipped).
func (m *Machine) RunInits(pkgs []*ssa.Package) error {
	for _, p := range pkgs {
		if !strings.HasPrefix(p.Pkg.Path(), m.RepoPrefix) {
			continue
		}
		initFn := p.Func("init")
		if initFn == nil || len(initFn.Blocks) == 0 {
			continue
		}
		if err := m.callSync(initFn); err != nil {
			return err
		}
	}
	return nil
}

// callSync runs fn to completion on a scratch goroutine (no visible operations allowed).
func (m *Machine) callSync(fn *ssa.Function) (err error) {
	defer func() {
		if r := recover(); r != nil {
			if ee, ok := r.(engineError); ok {
				err = fmt.Errorf("engine (init): %s", ee.msg)
				return
			}
			panic(r)
		}
	}()
	g := &Gor{ID: 0, Name: "init", Alts: map[string]*Item{}, Done: m.C.False, Spawn: m.C.True}
	it := &Item{G: m.C.True, Gor: g}
	m.enterFunction(it, fn, nil, nil, -1)
	m.susp = nil
	m.runRegion([]*Item{it})
	if len(m.susp) > 0 {
		return fmt.Errorf("init function blocked on a visible operation")
	}
	return nil
}
