// Package solve drives persistent SMT solver processes (z3 -in, z3-new -in, cvc5 --incremental).
package solve

import (
	"bufio"
	"fmt"
	"io"
	"os/exec"
	"strings"
	"sync"
	"time"
)

type Result int

const (
	Unsat Result = iota
	Sat
	Unknown
)

func (r Result) String() string { return [...]string{"unsat", "sat", "unknown"}[r] }

type Solver struct {
	Name  string
	cmd   *exec.Cmd
	in    io.WriteCloser
	out   *bufio.Reader
	mu    sync.Mutex
	Log   io.Writer // optional transcript
	Errs  []string
	Dead  bool
	TOms  int
	Total time.Duration
	N     int
}

// New starts a solver. kind: "z3", "z3-new", "cvc5". timeoutMs is the per-query soft timeout.
func New(kind string, timeoutMs int) (*Solver, error) {
	var cmd *exec.Cmd
	switch kind {
	case "z3":
		cmd = exec.Command("/usr/bin/z3", "-in", fmt.Sprintf("-t:%d", timeoutMs))
	case "z3-new":
		cmd = exec.Command("z3-new", "-in", fmt.Sprintf("-t:%d", timeoutMs))
	case "cvc5":
		cmd = exec.Command("/usr/bin/cvc5", "--incremental", "--produce-models", fmt.Sprintf("--tlimit-per=%d", timeoutMs))
	default:
		return nil, fmt.Errorf("unknown solver %s", kind)
	}
	in, err := cmd.StdinPipe()
	if err != nil {
		return nil, err
	}
	outp, err := cmd.StdoutPipe()
	if err != nil {
		return nil, err
	}
	cmd.Stderr = cmd.Stdout
	if err := cmd.Start(); err != nil {
		return nil, err
	}
	s := &Solver{Name: kind, cmd: cmd, in: in, out: bufio.NewReaderSize(outp, 1<<20), TOms: timeoutMs}
	if kind == "cvc5" {
		s.Send("(set-logic ALL)\n")
	} else {
		s.Send("(set-option :produce-models true)\n")
	}
	return s, nil
}

func (s *Solver) Close() {
	if s == nil || s.Dead {
		return
	}
	s.Dead = true
	s.in.Close()
	done := make(chan struct{})
	go func() { s.cmd.Wait(); close(done) }()
	select {
	case <-done:
	case <-time.After(2 * time.Second):
		s.cmd.Process.Kill()
	}
}

func (s *Solver) Kill() {
	if s == nil || s.Dead {
		return
	}
	s.Dead = true
	s.cmd.Process.Kill()
	s.cmd.Wait()
}

// Send writes text without expecting output.
func (s *Solver) Send(text string) {
	if s.Dead {
		return
	}
	if s.Log != nil {
		io.WriteString(s.Log, text)
	}
	if _, err := io.WriteString(s.in, text); err != nil {
		s.Errs = append(s.Errs, "write: "+err.Error())
		s.Dead = true
	}
}

// roundtrip sends text then an echo marker and returns all lines before the marker.
func (s *Solver) roundtrip(text string, hard time.Duration) ([]string, bool) {
	s.Send(text + "(echo \"@@done@@\")\n")
	type res struct {
		lines []string
		ok    bool
	}
	ch := make(chan res, 1)
	go func() {
		var lines []string
		for {
			line, err := s.out.ReadString('\n')
			if err != nil {
				ch <- res{lines, false}
				return
			}
			line = strings.TrimRight(line, "\r\n")
			if strings.Contains(line, "@@done@@") {
				ch <- res{lines, true}
				return
			}
			lines = append(lines, line)
		}
	}()
	select {
	case r := <-ch:
		return r.lines, r.ok
	case <-time.After(hard):
		s.Kill()
		return nil, false
	}
}

// Check runs (check-sat) after asserting extra (inside push/pop), optionally retrieving values.
// Returns result, the values text, and whether any error line appeared.
func (s *Solver) Check(extra string, getValues []string) (Result, map[string]string, error) {
	s.mu.Lock()
	defer s.mu.Unlock()
	if s.Dead {
		return Unknown, nil, fmt.Errorf("solver dead")
	}
	t0 := time.Now()
	defer func() { s.Total += time.Since(t0); s.N++ }()
	lines, ok := s.roundtrip("(push 1)\n"+extra+"(check-sat)\n", time.Duration(s.TOms)*time.Millisecond+8*time.Second)
	if !ok {
		return Unknown, nil, fmt.Errorf("solver timeout/died")
	}
	res := Unknown
	var err error
	for _, l := range lines {
		l = strings.TrimSpace(l)
		switch {
		case l == "sat":
			res = Sat
		case l == "unsat":
			res = Unsat
		case l == "unknown":
			res = Unknown
		case strings.HasPrefix(l, "(error"):
			err = fmt.Errorf("solver error: %s", l)
			s.Errs = append(s.Errs, l)
		}
	}
	if err != nil {
		res = Unknown
	}
	var vals map[string]string
	if res == Sat && len(getValues) > 0 {
		vals = map[string]string{}
		// chunk to keep lines manageable
		for i := 0; i < len(getValues); i += 50 {
			j := i + 50
			if j > len(getValues) {
				j = len(getValues)
			}
			vl, ok := s.roundtrip("(get-value ("+strings.Join(getValues[i:j], " ")+"))\n", 30*time.Second)
			if !ok {
				break
			}
			parseValues(strings.Join(vl, " "), vals)
		}
	}
	s.roundtrip("(pop 1)\n", 30*time.Second)
	return res, vals, err
}

// parseValues parses "((name value) (name value) ...)" into m; values kept as SMT text.
func parseValues(text string, m map[string]string) {
	text = strings.TrimSpace(text)
	// tokenise s-expr
	depth := 0
	var cur strings.Builder
	var items []string
	inBar := false
	for _, r := range text {
		if r == '|' {
			inBar = !inBar
		}
		if !inBar {
			if r == '(' {
				depth++
				if depth == 2 {
					cur.Reset()
					continue
				}
				if depth == 1 {
					continue
				}
			} else if r == ')' {
				depth--
				if depth == 1 {
					items = append(items, cur.String())
					continue
				}
				if depth == 0 {
					continue
				}
			}
		}
		if depth >= 2 {
			cur.WriteRune(r)
		}
	}
	for _, it := range items {
		it = strings.TrimSpace(it)
		var name, val string
		if strings.HasPrefix(it, "|") {
			e := strings.Index(it[1:], "|")
			if e < 0 {
				continue
			}
			name = it[:e+2]
			val = strings.TrimSpace(it[e+2:])
		} else {
			sp := strings.IndexAny(it, " \t")
			if sp < 0 {
				continue
			}
			name = it[:sp]
			val = strings.TrimSpace(it[sp:])
		}
		m[name] = val
	}
}
