package sym

import (
	"fmt"
	"math"
	"math/big"
	"strings"
)

// Printer emits SMT-LIB2 incrementally: declarations and one define-fun per
// non-leaf DAG node (children always have smaller IDs, so ID order is topological).
type Printer struct {
	C       *Ctx
	emitted map[int]bool
	ufDone  map[string]bool
	// Named: emit every node as a declared constant constrained by an asserted equality instead of a macro
	// (better for long incremental sessions: the definitions are encoded once and learned clauses survive).
	Named bool
}

func NewPrinter(c *Ctx) *Printer {
	return &Printer{C: c, emitted: map[int]bool{}, ufDone: map[string]bool{}}
}

func quote(name string) string {
	ok := true
	for _, r := range name {
		if !(r >= 'a' && r <= 'z' || r >= 'A' && r <= 'Z' || r >= '0' && r <= '9' || r == '_' || r == '.' || r == '!') {
			ok = false
		}
	}
	if ok && len(name) > 0 && !(name[0] >= '0' && name[0] <= '9') {
		return name
	}
	return "|" + strings.ReplaceAll(name, "|", "_") + "|"
}

func (p *Printer) ref(t *Term) string {
	switch t.Op {
	case OpConst:
		return constSMT(t)
	case OpVar:
		return quote(t.Name)
	}
	return fmt.Sprintf("t%d", t.ID)
}

func constSMT(t *Term) string {
	switch t.Sort {
	case SBool:
		if t.B {
			return "true"
		}
		return "false"
	case SBV:
		return fmt.Sprintf("#x%016x", t.Val.Uint64())
	case SInt:
		if t.Val.Sign() < 0 {
			return "(- " + new(big.Int).Neg(t.Val).String() + ")"
		}
		return t.Val.String()
	case SReal:
		n, d := t.Rat.Num(), t.Rat.Denom()
		s := ""
		if n.Sign() < 0 {
			s = fmt.Sprintf("(- (/ %s.0 %s.0))", new(big.Int).Neg(n).String(), d.String())
		} else {
			s = fmt.Sprintf("(/ %s.0 %s.0)", n.String(), d.String())
		}
		return s
	case SFP:
		b := math.Float64bits(t.F)
		return fmt.Sprintf("(fp #b%01b #b%011b #b%052b)", b>>63, (b>>52)&0x7ff, b&((1<<52)-1))
	}
	return "?"
}

// Emit returns the SMT-LIB text (declarations + definitions) needed so that Ref(t) is defined.
func (p *Printer) Emit(roots ...*Term) string {
	var sb strings.Builder
	// collect unemitted nodes
	var need []*Term
	seen := map[int]bool{}
	var stack []*Term
	for _, r := range roots {
		stack = append(stack, r)
	}
	for len(stack) > 0 {
		t := stack[len(stack)-1]
		stack = stack[:len(stack)-1]
		if seen[t.ID] || p.emitted[t.ID] || t.Op == OpConst {
			continue
		}
		seen[t.ID] = true
		need = append(need, t)
		for _, a := range t.Args {
			stack = append(stack, a)
		}
	}
	// sort by ID (topological)
	sortTerms(need)
	for _, t := range need {
		p.emitted[t.ID] = true
		switch t.Op {
		case OpVar:
			fmt.Fprintf(&sb, "(declare-const %s %s)\n", quote(t.Name), t.Sort.SMT())
		default:
			if t.Op == OpUF && !p.ufDone[t.Name] {
				p.ufDone[t.Name] = true
				sig := p.C.UFs[t.Name]
				var as []string
				for _, a := range sig.Args {
					as = append(as, a.SMT())
				}
				fmt.Fprintf(&sb, "(declare-fun %s (%s) %s)\n", quote(t.Name), strings.Join(as, " "), sig.Ret.SMT())
			}
			if p.Named {
				fmt.Fprintf(&sb, "(declare-const t%d %s)\n(assert (= t%d %s))\n", t.ID, t.Sort.SMT(), t.ID, p.expr(t))
			} else {
				fmt.Fprintf(&sb, "(define-fun t%d () %s %s)\n", t.ID, t.Sort.SMT(), p.expr(t))
			}
		}
	}
	return sb.String()
}

func (p *Printer) Ref(t *Term) string { return p.ref(t) }

func sortTerms(ts []*Term) {
	// simple insertion into buckets by ID using sort
	if len(ts) < 2 {
		return
	}
	quick(ts, 0, len(ts)-1)
}
func quick(a []*Term, lo, hi int) {
	for lo < hi {
		p := a[(lo+hi)/2].ID
		i, j := lo, hi
		for i <= j {
			for a[i].ID < p {
				i++
			}
			for a[j].ID > p {
				j--
			}
			if i <= j {
				a[i], a[j] = a[j], a[i]
				i++
				j--
			}
		}
		if j-lo < hi-i {
			quick(a, lo, j)
			lo = i
		} else {
			quick(a, i, hi)
			hi = j
		}
	}
}

func (p *Printer) expr(t *Term) string {
	a := make([]string, len(t.Args))
	for i, x := range t.Args {
		a[i] = p.ref(x)
	}
	s := t.Sort
	if len(t.Args) > 0 && t.Op != OpIte {
		s = t.Args[0].Sort
	}
	if t.Op == OpIte {
		s = t.Args[1].Sort
	}
	f := func(name string) string { return "(" + name + " " + strings.Join(a, " ") + ")" }
	switch t.Op {
	case OpNot:
		return f("not")
	case OpAnd:
		return f("and")
	case OpOr:
		return f("or")
	case OpIte:
		return f("ite")
	case OpEq:
		if s == SFP {
			return f("fp.eq")
		}
		return f("=")
	case OpUF:
		return f(quote(t.Name))
	case OpToReal:
		return f("to_real")
	case OpToInt:
		return f("to_int")
	case OpFPOfS:
		return "((_ to_fp 11 53) RNE " + a[0] + ")"
	case OpFPOfU:
		return "((_ to_fp_unsigned 11 53) RNE " + a[0] + ")"
	case OpFPToS:
		return "((_ fp.to_sbv 64) RTZ " + a[0] + ")"
	case OpFPToU:
		return "((_ fp.to_ubv 64) RTZ " + a[0] + ")"
	case OpFPRna:
		return "(fp.roundToIntegral RNA " + a[0] + ")"
	case OpFPIsInf:
		return f("fp.isInfinite")
	case OpFPIsNaN:
		return f("fp.isNaN")
	}
	switch s {
	case SBV:
		m := map[Op]string{OpAdd: "bvadd", OpSub: "bvsub", OpMul: "bvmul", OpSDiv: "bvsdiv", OpUDiv: "bvudiv", OpSRem: "bvsrem", OpURem: "bvurem",
			OpSlt: "bvslt", OpSle: "bvsle", OpUlt: "bvult", OpUle: "bvule", OpShl: "bvshl", OpLShr: "bvlshr", OpAShr: "bvashr",
			OpBAnd: "bvand", OpBOr: "bvor", OpBXor: "bvxor", OpBNot: "bvnot"}
		if n, ok := m[t.Op]; ok {
			return f(n)
		}
	case SInt:
		switch t.Op {
		case OpAdd:
			return f("+")
		case OpSub:
			return f("-")
		case OpMul:
			return f("*")
		case OpSlt, OpUlt:
			return f("<")
		case OpSle, OpUle:
			return f("<=")
		case OpUDiv:
			return f("div")
		case OpURem:
			return f("mod")
		case OpSDiv:
			return fmt.Sprintf("(ite (>= %s 0) (div %s %s) (- (div (- %s) %s)))", a[0], a[0], a[1], a[0], a[1])
		case OpSRem:
			return fmt.Sprintf("(- %s (* %s (ite (>= %s 0) (div %s %s) (- (div (- %s) %s)))))", a[0], a[1], a[0], a[0], a[1], a[0], a[1])
		}
	case SReal:
		switch t.Op {
		case OpAdd:
			return f("+")
		case OpSub:
			return f("-")
		case OpMul:
			return f("*")
		case OpRDiv:
			return f("/")
		case OpSlt, OpUlt:
			return f("<")
		case OpSle, OpUle:
			return f("<=")
		}
	case SFP:
		switch t.Op {
		case OpAdd:
			return "(fp.add RNE " + a[0] + " " + a[1] + ")"
		case OpSub:
			return "(fp.sub RNE " + a[0] + " " + a[1] + ")"
		case OpMul:
			return "(fp.mul RNE " + a[0] + " " + a[1] + ")"
		case OpRDiv:
			return "(fp.div RNE " + a[0] + " " + a[1] + ")"
		case OpSlt, OpUlt:
			return f("fp.lt")
		case OpSle, OpUle:
			return f("fp.leq")
		}
	}
	panic(fmt.Sprintf("print: unsupported op %s on sort %v", opNames[t.Op], s))
}
