// Package sym: hash-consed SMT terms with a cheap simplifier.
package sym

import (
	"fmt"
	"math"
	"math/big"
	"sort"
	"strconv"
	"strings"
)

type Sort uint8

const (
	SBool Sort = iota
	SBV        // 64-bit bit-vector
	SInt       // mathematical integer
	SReal      // real (float abstraction in int mode)
	SFP        // IEEE binary64 (bv mode)
)

func (s Sort) SMT() string {
	switch s {
	case SBool:
		return "Bool"
	case SBV:
		return "(_ BitVec 64)"
	case SInt:
		return "Int"
	case SReal:
		return "Real"
	case SFP:
		return "(_ FloatingPoint 11 53)"
	}
	return "?"
}

type Op uint8

const (
	OpConst Op = iota
	OpVar
	OpNot
	OpAnd
	OpOr
	OpIte
	OpEq
	OpAdd
	OpSub
	OpMul
	OpNeg
	OpSDiv // Go truncated signed division
	OpUDiv
	OpSRem
	OpURem
	OpSlt
	OpSle
	OpUlt
	OpUle
	OpShl
	OpLShr
	OpAShr
	OpBAnd
	OpBOr
	OpBXor
	OpBNot
	OpToReal // Int -> Real
	OpToInt  // Real -> Int (floor)
	OpRDiv   // Real division
	OpUF     // uninterpreted function application (Name)
	OpFPOfS  // signed BV -> FP (RNE)
	OpFPOfU
	OpFPToS // FP -> signed BV (RTZ)
	OpFPToU
	OpFPRna   // round to integral, ties away
	OpFPIsInf // Bool
	OpFPIsNaN
)

var opNames = map[Op]string{OpNot: "not", OpAnd: "and", OpOr: "or", OpIte: "ite", OpEq: "=", OpAdd: "add", OpSub: "sub", OpMul: "mul", OpNeg: "neg",
	OpSDiv: "sdiv", OpUDiv: "udiv", OpSRem: "srem", OpURem: "urem", OpSlt: "slt", OpSle: "sle", OpUlt: "ult", OpUle: "ule", OpShl: "shl", OpLShr: "lshr", OpAShr: "ashr",
	OpBAnd: "band", OpBOr: "bor", OpBXor: "bxor", OpBNot: "bnot", OpToReal: "to_real", OpToInt: "to_int", OpRDiv: "rdiv", OpUF: "uf",
	OpFPOfS: "fpofs", OpFPOfU: "fpofu", OpFPToS: "fptos", OpFPToU: "fptou", OpFPRna: "fprna", OpFPIsInf: "isinf", OpFPIsNaN: "isnan"}

type Term struct {
	ID   int
	Op   Op
	Sort Sort
	Args []*Term
	Val  *big.Int // BV (unsigned, < 2^64) / Int constant
	B    bool     // Bool constant
	Rat  *big.Rat // Real constant
	F    float64  // FP constant
	Name string   // variable / UF name
}

func (t *Term) IsConst() bool { return t.Op == OpConst }
func (t *Term) IsTrue() bool  { return t.Op == OpConst && t.Sort == SBool && t.B }
func (t *Term) IsFalse() bool { return t.Op == OpConst && t.Sort == SBool && !t.B }

// Int64 returns the constant value as signed 64-bit (BV two's complement or Int), ok=false if not a constant that fits.
func (t *Term) Int64() (int64, bool) {
	if t.Op != OpConst || t.Val == nil {
		return 0, false
	}
	if t.Sort == SBV {
		return int64(t.Val.Uint64()), true
	}
	if t.Val.IsInt64() {
		return t.Val.Int64(), true
	}
	return 0, false
}

type Ctx struct {
	tab    map[string]*Term
	nextID int
	True   *Term
	False  *Term
	fresh  int
	Vars   []*Term          // declaration order
	UFs    map[string]UFSig // uninterpreted functions
	UFOrd  []string
	nodes  int
}

type UFSig struct {
	Args []Sort
	Ret  Sort
}

var two64 = new(big.Int).Lsh(big.NewInt(1), 64)
var two63 = new(big.Int).Lsh(big.NewInt(1), 63)

func NewCtx() *Ctx {
	c := &Ctx{tab: map[string]*Term{}, UFs: map[string]UFSig{}}
	c.True = c.mk(&Term{Op: OpConst, Sort: SBool, B: true})
	c.False = c.mk(&Term{Op: OpConst, Sort: SBool, B: false})
	return c
}

func (c *Ctx) NumNodes() int { return c.nextID }

func (c *Ctx) key(t *Term) string {
	buf := make([]byte, 0, 32)
	buf = append(buf, byte(t.Op)+'A', byte(t.Sort)+'0')
	switch t.Op {
	case OpConst:
		switch t.Sort {
		case SBool:
			if t.B {
				buf = append(buf, 'T')
			} else {
				buf = append(buf, 'F')
			}
		case SBV, SInt:
			buf = t.Val.Append(buf, 16)
		case SReal:
			buf = append(buf, t.Rat.String()...)
		case SFP:
			buf = strconv.AppendUint(buf, math.Float64bits(t.F), 16)
		}
	case OpVar:
		buf = append(buf, t.Name...)
	case OpUF:
		buf = append(buf, t.Name...)
		buf = append(buf, ':')
		fallthrough
	default:
		for _, a := range t.Args {
			buf = strconv.AppendInt(buf, int64(a.ID), 36)
			buf = append(buf, ',')
		}
	}
	return string(buf)
}

func (c *Ctx) mk(t *Term) *Term {
	k := c.key(t)
	if e, ok := c.tab[k]; ok {
		return e
	}
	t.ID = c.nextID
	c.nextID++
	c.tab[k] = t
	if t.Op == OpVar {
		c.Vars = append(c.Vars, t)
	}
	return t
}

// ---- constants and variables

func (c *Ctx) Bool(b bool) *Term {
	if b {
		return c.True
	}
	return c.False
}

func (c *Ctx) BV(v uint64) *Term {
	return c.mk(&Term{Op: OpConst, Sort: SBV, Val: new(big.Int).SetUint64(v)})
}
func (c *Ctx) BVs(v int64) *Term { return c.BV(uint64(v)) }

func (c *Ctx) Int(v int64) *Term {
	return c.mk(&Term{Op: OpConst, Sort: SInt, Val: big.NewInt(v)})
}
func (c *Ctx) IntBig(v *big.Int) *Term {
	return c.mk(&Term{Op: OpConst, Sort: SInt, Val: new(big.Int).Set(v)})
}
func (c *Ctx) Real(r *big.Rat) *Term {
	return c.mk(&Term{Op: OpConst, Sort: SReal, Rat: new(big.Rat).Set(r)})
}
func (c *Ctx) RealF(f float64) *Term {
	r := new(big.Rat)
	r.SetFloat64(f)
	return c.Real(r)
}
func (c *Ctx) FP(f float64) *Term { return c.mk(&Term{Op: OpConst, Sort: SFP, F: f}) }

func (c *Ctx) Var(name string, s Sort) *Term {
	return c.mk(&Term{Op: OpVar, Sort: s, Name: name})
}

// Fresh returns a new variable with a unique name derived from hint.
func (c *Ctx) Fresh(hint string, s Sort) *Term {
	c.fresh++
	return c.Var(fmt.Sprintf("%s!%d", hint, c.fresh), s)
}

func (c *Ctx) UF(name string, ret Sort, args ...*Term) *Term {
	if _, ok := c.UFs[name]; !ok {
		sig := UFSig{Ret: ret}
		for _, a := range args {
			sig.Args = append(sig.Args, a.Sort)
		}
		c.UFs[name] = sig
		c.UFOrd = append(c.UFOrd, name)
	}
	return c.mk(&Term{Op: OpUF, Sort: ret, Name: name, Args: args})
}

// ---- boolean structure

func (c *Ctx) Not(a *Term) *Term {
	if a.Sort != SBool {
		panic("Not on non-bool")
	}
	if a.Op == OpConst {
		return c.Bool(!a.B)
	}
	if a.Op == OpNot {
		return a.Args[0]
	}
	return c.mk(&Term{Op: OpNot, Sort: SBool, Args: []*Term{a}})
}

func (c *Ctx) nary(op Op, args []*Term) *Term {
	// op is OpAnd or OpOr
	absorbing, identity := c.False, c.True
	if op == OpOr {
		absorbing, identity = c.True, c.False
	}
	seen := map[int]bool{}
	var flat []*Term
	var add func(t *Term) bool
	add = func(t *Term) bool {
		if t.Sort != SBool {
			panic("and/or on non-bool")
		}
		if t == absorbing {
			return false
		}
		if t == identity {
			return true
		}
		if t.Op == op {
			for _, a := range t.Args {
				if !add(a) {
					return false
				}
			}
			return true
		}
		if seen[t.ID] {
			return true
		}
		// complementary literal
		if t.Op == OpNot && seen[t.Args[0].ID] {
			return false
		}
		seen[t.ID] = true
		flat = append(flat, t)
		return true
	}
	for _, a := range args {
		if !add(a) {
			return absorbing
		}
	}
	// second pass for x ... not x where not came first
	for _, t := range flat {
		if t.Op != OpNot {
			nt := c.tab[c.key(&Term{Op: OpNot, Sort: SBool, Args: []*Term{t}})]
			if nt != nil && seen[nt.ID] {
				return absorbing
			}
		}
	}
	// subsumption / unit resolution against the literal set (one level deep)
	dual := OpOr
	if op == OpOr {
		dual = OpAnd
	}
	negSeen := func(y *Term) bool {
		if y.Op == OpNot {
			return seen[y.Args[0].ID]
		}
		nt := c.tab[c.key(&Term{Op: OpNot, Sort: SBool, Args: []*Term{y}})]
		return nt != nil && seen[nt.ID]
	}
	changed := false
	var out []*Term
	for _, t := range flat {
		// t = dual(ys): in an And, an Or containing a known-true literal is redundant; known-false literals drop out
		if t.Op == dual {
			redundant := false
			var keep []*Term
			for _, y := range t.Args {
				if seen[y.ID] {
					redundant = true
					break
				}
				if negSeen(y) {
					continue
				}
				keep = append(keep, y)
			}
			if redundant {
				changed = true
				continue
			}
			if len(keep) != len(t.Args) {
				changed = true
				out = append(out, c.nary(dual, keep))
				continue
			}
		}
		// t = not(op(ys)): in an And, not(And(ys)) with all ys known true is false; with some y known false it is redundant
		if t.Op == OpNot && t.Args[0].Op == op {
			all := true
			redundant := false
			for _, y := range t.Args[0].Args {
				if !seen[y.ID] {
					all = false
				}
				if negSeen(y) {
					redundant = true
				}
			}
			if all {
				return absorbing
			}
			if redundant {
				changed = true
				continue
			}
		}
		out = append(out, t)
	}
	if changed {
		return c.nary(op, out)
	}
	if len(flat) == 0 {
		return identity
	}
	if len(flat) == 1 {
		return flat[0]
	}
	sort.Slice(flat, func(i, j int) bool { return flat[i].ID < flat[j].ID })
	return c.mk(&Term{Op: op, Sort: SBool, Args: flat})
}

func (c *Ctx) And(args ...*Term) *Term { return c.nary(OpAnd, args) }
func (c *Ctx) Or(args ...*Term) *Term  { return c.nary(OpOr, args) }
func (c *Ctx) Implies(a, b *Term) *Term {
	return c.Or(c.Not(a), b)
}

func (c *Ctx) Ite(cond, a, b *Term) *Term {
	if cond.Sort != SBool {
		panic("ite cond not bool")
	}
	if a.Sort != b.Sort {
		panic(fmt.Sprintf("ite sort mismatch %v %v", a.Sort, b.Sort))
	}
	if cond.IsTrue() {
		return a
	}
	if cond.IsFalse() {
		return b
	}
	if a == b {
		return a
	}
	if cond.Op == OpNot {
		return c.Ite(cond.Args[0], b, a)
	}
	if a.Sort == SBool {
		switch {
		case a.IsTrue() && b.IsFalse():
			return cond
		case a.IsFalse() && b.IsTrue():
			return c.Not(cond)
		case a.IsTrue():
			return c.Or(cond, b)
		case a.IsFalse():
			return c.And(c.Not(cond), b)
		case b.IsTrue():
			return c.Or(c.Not(cond), a)
		case b.IsFalse():
			return c.And(cond, a)
		}
	}
	if a.Op == OpIte && a.Args[0] == cond {
		a = a.Args[1]
	}
	if b.Op == OpIte && b.Args[0] == cond {
		b = b.Args[2]
	}
	if a == b {
		return a
	}
	// ite(c, x, ite(d, x, y)) -> ite(c or d, x, y)
	if b.Op == OpIte && b.Args[1] == a {
		return c.Ite(c.Or(cond, b.Args[0]), a, b.Args[2])
	}
	return c.mk(&Term{Op: OpIte, Sort: a.Sort, Args: []*Term{cond, a, b}})
}

const pushDepth = 24

// pushIte distributes a unary function over an ite DAG whose leaves are (mostly) constants.
// Memoised per call and bounded in the number of distinct nodes visited.
func (c *Ctx) pushIte(t *Term, depth int, f func(*Term) *Term) (*Term, bool) {
	if t.Op == OpConst {
		return f(t), true
	}
	if t.Op != OpIte {
		return nil, false
	}
	memo := map[int]*Term{}
	okm := map[int]bool{}
	budget := 48
	var rec func(t *Term, depth int) (*Term, bool)
	rec = func(t *Term, depth int) (*Term, bool) {
		if t.Op == OpConst {
			return f(t), true
		}
		if r, seen := memo[t.ID]; seen {
			return r, okm[t.ID]
		}
		if t.Op != OpIte || depth == 0 || budget <= 0 {
			return nil, false
		}
		budget--
		a, ok1 := rec(t.Args[1], depth-1)
		b, ok2 := rec(t.Args[2], depth-1)
		var r *Term
		ok := false
		if ok1 && ok2 {
			r, ok = c.Ite(t.Args[0], a, b), true
		}
		memo[t.ID], okm[t.ID] = r, ok
		return r, ok
	}
	r, ok := rec(t, depth)
	if !ok || budget <= 0 {
		return nil, false
	}
	return r, true
}

func (c *Ctx) Eq(a, b *Term) *Term {
	if a.Sort != b.Sort {
		panic(fmt.Sprintf("eq sort mismatch %v %v (%s, %s)", a.Sort, b.Sort, c.String(a), c.String(b)))
	}
	if a == b {
		if a.Sort == SFP {
			// NaN != NaN; keep symbolic unless constant
			if a.Op == OpConst {
				return c.Bool(a.F == a.F)
			}
		} else {
			return c.True
		}
	}
	if a.Op == OpConst && b.Op == OpConst {
		switch a.Sort {
		case SBool:
			return c.Bool(a.B == b.B)
		case SBV, SInt:
			return c.Bool(a.Val.Cmp(b.Val) == 0)
		case SReal:
			return c.Bool(a.Rat.Cmp(b.Rat) == 0)
		case SFP:
			return c.Bool(a.F == b.F)
		}
	}
	if a.Sort == SBool {
		if a.Op == OpConst {
			a, b = b, a
		}
		if b.IsTrue() {
			return a
		}
		if b.IsFalse() {
			return c.Not(a)
		}
	}
	if a.Op == OpConst {
		a, b = b, a
	}
	if b.Op == OpConst && a.Op == OpIte {
		if r, ok := c.pushIte(a, pushDepth, func(x *Term) *Term { return c.Eq(x, b) }); ok {
			return r
		}
	}
	if a.ID > b.ID {
		a, b = b, a
	}
	return c.mk(&Term{Op: OpEq, Sort: SBool, Args: []*Term{a, b}})
}

// ---- arithmetic

func normBV(v *big.Int) *big.Int {
	r := new(big.Int).Mod(v, two64)
	return r
}
func signedOf(v *big.Int) *big.Int {
	if v.Cmp(two63) >= 0 {
		return new(big.Int).Sub(v, two64)
	}
	return v
}

func (c *Ctx) constOf(s Sort, v *big.Int) *Term {
	if s == SBV {
		return c.mk(&Term{Op: OpConst, Sort: SBV, Val: normBV(v)})
	}
	return c.mk(&Term{Op: OpConst, Sort: SInt, Val: v})
}

func (c *Ctx) isZero(t *Term) bool {
	if t.Op != OpConst {
		return false
	}
	switch t.Sort {
	case SBV, SInt:
		return t.Val.Sign() == 0
	case SReal:
		return t.Rat.Sign() == 0
	}
	return false
}
func (c *Ctx) isOne(t *Term) bool {
	if t.Op != OpConst {
		return false
	}
	switch t.Sort {
	case SBV, SInt:
		return t.Val.Cmp(big.NewInt(1)) == 0
	case SReal:
		return t.Rat.Cmp(big.NewRat(1, 1)) == 0
	}
	return false
}

// Bin builds a binary arithmetic/bitwise term.
func (c *Ctx) Bin(op Op, a, b *Term) *Term {
	if a.Sort != b.Sort {
		panic(fmt.Sprintf("bin %s sort mismatch %v %v", opNames[op], a.Sort, b.Sort))
	}
	s := a.Sort
	if a.Op == OpConst && b.Op == OpConst {
		if r := c.foldBin(op, a, b); r != nil {
			return r
		}
	}
	switch op {
	case OpAdd:
		if c.isZero(a) {
			return b
		}
		if c.isZero(b) {
			return a
		}
	case OpSub:
		if c.isZero(b) {
			return a
		}
		if a == b && s != SFP {
			return c.zero(s)
		}
	case OpMul:
		if c.isOne(a) {
			return b
		}
		if c.isOne(b) {
			return a
		}
		if s != SFP && (c.isZero(a) || c.isZero(b)) {
			return c.zero(s)
		}
	case OpSDiv, OpUDiv, OpRDiv:
		if c.isOne(b) {
			return a
		}
	case OpBAnd:
		if c.isZero(a) || c.isZero(b) {
			return c.zero(s)
		}
		if a == b {
			return a
		}
	case OpBOr, OpBXor:
		if c.isZero(a) {
			return b
		}
		if c.isZero(b) {
			return a
		}
	case OpShl, OpLShr, OpAShr:
		if c.isZero(b) {
			return a
		}
	}
	// push through ite with constant other side
	if s != SFP {
		if b.Op == OpConst && a.Op == OpIte {
			if r, ok := c.pushIte(a, pushDepth, func(x *Term) *Term { return c.Bin(op, x, b) }); ok {
				return r
			}
		}
		if a.Op == OpConst && b.Op == OpIte {
			if r, ok := c.pushIte(b, pushDepth, func(x *Term) *Term { return c.Bin(op, a, x) }); ok {
				return r
			}
		}
	}
	if (op == OpAdd || op == OpMul || op == OpBAnd || op == OpBOr || op == OpBXor) && a.ID > b.ID {
		a, b = b, a
	}
	return c.mk(&Term{Op: op, Sort: s, Args: []*Term{a, b}})
}

func (c *Ctx) zero(s Sort) *Term {
	switch s {
	case SBV:
		return c.BV(0)
	case SInt:
		return c.Int(0)
	case SReal:
		return c.Real(big.NewRat(0, 1))
	case SFP:
		return c.FP(0)
	}
	panic("zero")
}

func (c *Ctx) foldBin(op Op, a, b *Term) *Term {
	switch a.Sort {
	case SBV, SInt:
		x, y := a.Val, b.Val
		bv := a.Sort == SBV
		sx, sy := x, y
		if bv {
			sx, sy = signedOf(x), signedOf(y)
		}
		r := new(big.Int)
		switch op {
		case OpAdd:
			r.Add(x, y)
		case OpSub:
			r.Sub(x, y)
		case OpMul:
			r.Mul(x, y)
		case OpSDiv:
			if sy.Sign() == 0 {
				return nil
			}
			r.Quo(sx, sy)
		case OpSRem:
			if sy.Sign() == 0 {
				return nil
			}
			r.Rem(sx, sy)
		case OpUDiv:
			if y.Sign() == 0 {
				return nil
			}
			r.Quo(x, y)
		case OpURem:
			if y.Sign() == 0 {
				return nil
			}
			r.Rem(x, y)
		case OpBAnd:
			if !bv && (x.Sign() < 0 || y.Sign() < 0) {
				return nil
			}
			r.And(x, y)
		case OpBOr:
			if !bv && (x.Sign() < 0 || y.Sign() < 0) {
				return nil
			}
			r.Or(x, y)
		case OpBXor:
			if !bv && (x.Sign() < 0 || y.Sign() < 0) {
				return nil
			}
			r.Xor(x, y)
		case OpShl:
			if !y.IsUint64() || y.Uint64() > 4096 {
				if bv {
					return c.BV(0)
				}
				return nil
			}
			r.Lsh(x, uint(y.Uint64()))
		case OpLShr:
			if !y.IsUint64() || y.Uint64() >= 64 {
				if bv {
					return c.BV(0)
				}
				return nil
			}
			r.Rsh(x, uint(y.Uint64()))
		case OpAShr:
			sh := uint(63)
			if y.IsUint64() && y.Uint64() < 64 {
				sh = uint(y.Uint64())
			}
			r.Rsh(sx, sh)
		default:
			return nil
		}
		return c.constOf(a.Sort, r)
	case SReal:
		r := new(big.Rat)
		switch op {
		case OpAdd:
			r.Add(a.Rat, b.Rat)
		case OpSub:
			r.Sub(a.Rat, b.Rat)
		case OpMul:
			r.Mul(a.Rat, b.Rat)
		case OpRDiv:
			if b.Rat.Sign() == 0 {
				return nil
			}
			r.Quo(a.Rat, b.Rat)
		default:
			return nil
		}
		return c.Real(r)
	case SFP:
		switch op {
		case OpAdd:
			return c.FP(a.F + b.F)
		case OpSub:
			return c.FP(a.F - b.F)
		case OpMul:
			return c.FP(a.F * b.F)
		case OpRDiv:
			return c.FP(a.F / b.F)
		}
	}
	return nil
}

func (c *Ctx) Neg(a *Term) *Term {
	return c.Bin(OpSub, c.zero(a.Sort), a)
}

func (c *Ctx) BNot(a *Term) *Term {
	if a.Op == OpConst && a.Sort == SBV {
		return c.BV(^a.Val.Uint64())
	}
	return c.mk(&Term{Op: OpBNot, Sort: a.Sort, Args: []*Term{a}})
}

// Cmp builds a comparison (OpSlt, OpSle, OpUlt, OpUle).
func (c *Ctx) Cmp(op Op, a, b *Term) *Term {
	if a.Sort != b.Sort {
		panic(fmt.Sprintf("cmp sort mismatch %v %v", a.Sort, b.Sort))
	}
	if a == b && a.Sort != SFP {
		return c.Bool(op == OpSle || op == OpUle)
	}
	if a.Op == OpConst && b.Op == OpConst {
		var cmp int
		switch a.Sort {
		case SBV:
			if op == OpSlt || op == OpSle {
				cmp = signedOf(a.Val).Cmp(signedOf(b.Val))
			} else {
				cmp = a.Val.Cmp(b.Val)
			}
		case SInt:
			cmp = a.Val.Cmp(b.Val)
		case SReal:
			cmp = a.Rat.Cmp(b.Rat)
		case SFP:
			if op == OpSlt || op == OpUlt {
				return c.Bool(a.F < b.F)
			}
			return c.Bool(a.F <= b.F)
		}
		if op == OpSlt || op == OpUlt {
			return c.Bool(cmp < 0)
		}
		return c.Bool(cmp <= 0)
	}
	if a.Sort != SFP {
		if b.Op == OpConst && a.Op == OpIte {
			if r, ok := c.pushIte(a, pushDepth, func(x *Term) *Term { return c.Cmp(op, x, b) }); ok {
				return r
			}
		}
		if a.Op == OpConst && b.Op == OpIte {
			if r, ok := c.pushIte(b, pushDepth, func(x *Term) *Term { return c.Cmp(op, a, x) }); ok {
				return r
			}
		}
	}
	return c.mk(&Term{Op: op, Sort: SBool, Args: []*Term{a, b}})
}

// Un builds unary conversion terms.
func (c *Ctx) Un(op Op, ret Sort, a *Term) *Term {
	if a.Op == OpConst {
		switch op {
		case OpToReal:
			return c.Real(new(big.Rat).SetInt(a.Val))
		case OpToInt:
			// floor
			n, d := a.Rat.Num(), a.Rat.Denom()
			q := new(big.Int).Div(n, d) // Euclidean; d>0 => floor
			return c.IntBig(q)
		case OpFPOfS:
			return c.FP(float64(int64(a.Val.Uint64())))
		case OpFPOfU:
			return c.FP(float64(a.Val.Uint64()))
		}
	}
	if op == OpToInt && a.Op == OpToReal {
		return a.Args[0]
	}
	if (op == OpToInt || op == OpToReal) && a.Op == OpIte {
		return c.Ite(a.Args[0], c.Un(op, ret, a.Args[1]), c.Un(op, ret, a.Args[2]))
	}
	if op == OpToInt && a.Op == OpSub && a.Args[0].Op == OpConst && a.Args[0].Rat.Sign() == 0 && a.Args[1].Op == OpToReal {
		// to_int(-to_real(k)) = -k
		return c.Neg(a.Args[1].Args[0])
	}
	if op == OpToInt && a.Op == OpNeg {
		// not generated
	}
	return c.mk(&Term{Op: op, Sort: ret, Args: []*Term{a}})
}

// ---- debug printing

func (c *Ctx) String(t *Term) string {
	var sb strings.Builder
	c.str(&sb, t, 6)
	return sb.String()
}

// StringDeep prints with a larger depth (debugging).
func (c *Ctx) StringDeep(t *Term, depth int) string {
	var sb strings.Builder
	c.str(&sb, t, depth)
	return sb.String()
}

func (c *Ctx) str(sb *strings.Builder, t *Term, depth int) {
	switch t.Op {
	case OpConst:
		switch t.Sort {
		case SBool:
			fmt.Fprintf(sb, "%v", t.B)
		case SBV:
			fmt.Fprintf(sb, "%d", int64(t.Val.Uint64()))
		case SInt:
			sb.WriteString(t.Val.String())
		case SReal:
			sb.WriteString(t.Rat.String())
		case SFP:
			fmt.Fprintf(sb, "%g", t.F)
		}
	case OpVar:
		sb.WriteString(t.Name)
	default:
		if depth == 0 {
			fmt.Fprintf(sb, "#%d", t.ID)
			return
		}
		sb.WriteByte('(')
		if t.Op == OpUF {
			sb.WriteString(t.Name)
		} else {
			sb.WriteString(opNames[t.Op])
		}
		for _, a := range t.Args {
			sb.WriteByte(' ')
			c.str(sb, a, depth-1)
		}
		sb.WriteByte(')')
	}
}
