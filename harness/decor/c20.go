package decor

import (
	"fmt"
	"time"
)

// ---- formatter environment: the fmt.State a Formatter is called with, and a model of fmt.Sprintf

type vFmtState struct {
	prec    int
	hasPrec bool
	space   bool
	writes  int
	text    string
}

func (s *vFmtState) Write(b []byte) (int, error) {
	s.writes++
	s.text += string(b)
	return len(b), nil
}
func (s *vFmtState) Width() (int, bool)     { return 0, false }
func (s *vFmtState) Precision() (int, bool) { return s.prec, s.hasPrec }
func (s *vFmtState) Flag(c int) bool        { return c == ' ' && s.space }

// vVerb: any verb the formatter types treat specially plus the default branch ('d', 's', 'v').
func vVerb() rune {
	k := vInt("verb")
	vAssume(k >= 0 && k <= 10)
	switch k {
	case 0:
		return 'f'
	case 1:
		return 'e'
	case 2:
		return 'E'
	case 3:
		return 'b'
	case 4:
		return 'g'
	case 5:
		return 'G'
	case 6:
		return 'x'
	case 7:
		return 'X'
	case 8:
		return 'd'
	case 9:
		return 's'
	}
	return 'v'
}

func vState() *vFmtState {
	st := &vFmtState{prec: vInt("prec"), hasPrec: vBool("hasPrec"), space: vBool("spaceFlag")}
	vAssume(st.prec >= 0 && st.prec <= 20)
	return st
}

// Model of fmt.Sprintf for this package: every operand that is a fmt.Formatter is formatted once with an
// arbitrary accepted verb/flags/precision; integer operands are recorded for the oracle.
func vmSprintf(format string, a ...interface{}) string {
	out := vText("sprintf.literal")
	for _, x := range a {
		switch v := x.(type) {
		case fmt.Formatter:
			st := vState()
			v.Format(st, vVerb())
			out += st.text
		case int64:
			vGhostPut("sprintf.int", v)
			out += vText("sprintf.int")
		case float64:
			vGhostPutF("sprintf.float", v)
			out += vText("sprintf.float")
		case string:
			out += v
		default:
			out += vText("sprintf.other")
		}
	}
	return out
}

func vAbsLE(a, b, tol float64) bool { // |a-b| <= tol
	d := a - b
	return d <= tol && -d <= tol
}

// ---- sizes: the unit is the largest that fits and the printed number is value/unit

func vhC20Size1024() {
	s := vInt64("size")
	vAssume(s >= 0)
	st := vState()
	SizeB1024(s).Format(st, vVerb())
	vAssert(st.writes == 1, "C20.size1024.one-write")
	vAssert(vGhostLen("appendfloat.value") == 1, "C20.size1024.one-number")
	x := vGhostAtF("appendfloat.value", 0)
	var unit int64 = 1
	if s >= 1<<40 {
		unit = 1 << 40
	} else if s >= 1<<30 {
		unit = 1 << 30
	} else if s >= 1<<20 {
		unit = 1 << 20
	} else if s >= 1<<10 {
		unit = 1 << 10
	}
	exact := float64(s) / float64(unit)
	vAssert(vAbsLE(x, exact, exact/(1<<51)), "C20.size1024.value-is-size-over-largest-unit")
	vAssert(x >= 0 && (x < 1024 || unit == 1<<40), "C20.size1024.mantissa-below-1024")
	vCover("C20.size1024.reach")
}

func vhC20Size1000() {
	s := vInt64("size")
	vAssume(s >= 0)
	st := vState()
	SizeB1000(s).Format(st, vVerb())
	vAssert(st.writes == 1, "C20.size1000.one-write")
	vAssert(vGhostLen("appendfloat.value") == 1, "C20.size1000.one-number")
	x := vGhostAtF("appendfloat.value", 0)
	var unit int64 = 1
	if s >= 1000000000000 {
		unit = 1000000000000
	} else if s >= 1000000000 {
		unit = 1000000000
	} else if s >= 1000000 {
		unit = 1000000
	} else if s >= 1000 {
		unit = 1000
	}
	exact := float64(s) / float64(unit)
	vAssert(vAbsLE(x, exact, exact/(1<<51)), "C20.size1000.value-is-size-over-largest-unit")
	vAssert(x >= 0 && (x < 1000.0000001 || unit == 1000000000000), "C20.size1000.mantissa-below-1000")
	vCover("C20.size1000.reach")
}

// unit names
func vhC20UnitNames() {
	vAssert(SizeB1024(1).String() == "b" && SizeB1024(1<<10).String() == "KiB" && SizeB1024(1<<20).String() == "MiB" &&
		SizeB1024(1<<30).String() == "GiB" && SizeB1024(1<<40).String() == "TiB", "C20.units.1024")
	vAssert(SizeB1000(1).String() == "b" && SizeB1000(1000).String() == "KB" && SizeB1000(1000000).String() == "MB" &&
		SizeB1000(1000000000).String() == "GB" && SizeB1000(1000000000000).String() == "TB", "C20.units.1000")
	vCover("C20.units.reach")
}

// ---- percentage decorator: prints 100*current/total for 0 <= current <= total
func vhC20Percentage() {
	total := vInt64("total")
	current := vInt64("current")
	vAssume(total > 0 && current >= 0 && current <= total)
	// 100*current below 2^53: both conversions to float64 are exact and only the division rounds; larger
	// counters are covered by the relative bound proved for the shared kernel in C08
	vAssume(total <= 1<<46)
	d := NewPercentage("%.2f")
	_, w := d.Decor(Statistics{Total: total, Current: current})
	vAssert(w >= 0, "C20.percentage.width")
	vAssert(vGhostLen("appendfloat.value") == 1, "C20.percentage.one-number")
	x := vGhostAtF("appendfloat.value", 0)
	exact := 100 * float64(current) / float64(total)
	vAssert(vAbsLE(x, exact, exact/(1<<50)), "C20.percentage.value")
	vAssert(x >= 0 && x <= 100, "C20.percentage.range")
	if current == total {
		vAssert(x == 100, "C20.percentage.full-is-100")
	}
	if current == 0 {
		vAssert(x == 0, "C20.percentage.zero-is-0")
	}
	vCover("C20.percentage.reach")
}

// ---- time producers: h:m:s split of a duration below 60 hours
func vhC20TimeProducer() {
	d := vInt64("dur")
	vAssume(d >= 0 && d < 60*3600*1000000000)
	style := vInt("style")
	vAssume(style >= 1 && style <= 3)
	p := chooseTimeProducer(TimeStyle(style))
	p(time.Duration(d))
	secs := d / 1000000000
	n := vGhostLen("sprintf.int")
	switch TimeStyle(style) {
	case ET_STYLE_HHMMSS:
		vAssert(n == 3, "C20.time.hhmmss.fields")
		h, m, s := vGhostAt("sprintf.int", 0), vGhostAt("sprintf.int", 1), vGhostAt("sprintf.int", 2)
		vAssert(h*3600+m*60+s == secs && m >= 0 && m < 60 && s >= 0 && s < 60 && h >= 0, "C20.time.hhmmss")
	case ET_STYLE_HHMM:
		vAssert(n == 2, "C20.time.hhmm.fields")
		h, m := vGhostAt("sprintf.int", 0), vGhostAt("sprintf.int", 1)
		vAssert(h*60+m == secs/60 && m >= 0 && m < 60 && h >= 0, "C20.time.hhmm")
	case ET_STYLE_MMSS:
		if secs >= 3600 {
			vAssert(n == 3, "C20.time.mmss.fields-with-hours")
			h, m, s := vGhostAt("sprintf.int", 0), vGhostAt("sprintf.int", 1), vGhostAt("sprintf.int", 2)
			vAssert(h*3600+m*60+s == secs && m < 60 && s < 60, "C20.time.mmss.with-hours")
		} else {
			vAssert(n == 2, "C20.time.mmss.fields")
			m, s := vGhostAt("sprintf.int", 0), vGhostAt("sprintf.int", 1)
			vAssert(m*60+s == secs && s >= 0 && s < 60 && m >= 0, "C20.time.mmss")
		}
	}
	vCover("C20.time.reach")
}

// ---- estimators

type vAvg struct {
	adds int
	last float64
	val  float64
}

func (a *vAvg) Add(v float64)  { a.adds++; a.last = v }
func (a *vAvg) Value() float64 { return a.val }
func (a *vAvg) Set(v float64)  { a.val = v }

func vSample() (z, n, dur int64) {
	z = vInt64("zDur")
	n = vInt64("n")
	dur = vInt64("dur")
	vAssume(z >= 0 && z <= 1<<61 && dur >= 0 && dur <= 1<<61)
	return
}

// time conservation of the ETA estimator: a sample without progress is carried over, a sample with
// progress feeds (carried+dur)/n once and clears the carry; nothing infinite or NaN is ever fed.
func vhC20EtaUpdate() {
	avg := &vAvg{}
	d := MovingAverageETA(ET_STYLE_GO, avg, nil).(*movingAverageETA)
	z, n, dur := vSample()
	d.zDur = time.Duration(z)
	d.EwmaUpdate(n, time.Duration(dur))
	if n <= 0 {
		vAssert(avg.adds == 0, "C20.eta.no-progress-feeds-nothing")
		vAssert(int64(d.zDur) == z+dur, "C20.eta.no-progress-time-carried")
	} else {
		vAssert(avg.adds == 1, "C20.eta.progress-feeds-once")
		vAssert(d.zDur == 0, "C20.eta.carry-cleared")
		exact := float64(z+dur) / float64(n)
		vAssert(vAbsLE(avg.last, exact, exact/(1<<50)), "C20.eta.fed-duration-per-item")
	}
	vCover("C20.eta.reach")
}

func vhC20SpeedUpdate() {
	avg := &vAvg{}
	d := MovingAverageSpeed(SizeB1024(0), "", avg).(*movingAverageSpeed)
	z, n, dur := vSample()
	d.zDur = time.Duration(z)
	d.EwmaUpdate(n, time.Duration(dur))
	if n <= 0 {
		vAssert(avg.adds == 0, "C20.speed.no-progress-feeds-nothing")
		vAssert(int64(d.zDur) == z+dur, "C20.speed.no-progress-time-carried")
	} else {
		vAssert(avg.adds == 1, "C20.speed.progress-feeds-once")
		vAssert(d.zDur == 0, "C20.speed.carry-cleared")
		exact := float64(z+dur) / float64(n)
		vAssert(vAbsLE(avg.last, exact, exact/(1<<50)), "C20.speed.fed-duration-per-byte")
	}
	vCover("C20.speed.reach")
}

// ETA = (total-current) * round(average), printed through the h:m:s producer
func vhC20EtaDecor() {
	avg := &vAvg{val: float64(vInt64("avgNanos"))}
	total := vInt64("total")
	current := vInt64("current")
	vAssume(total >= 0 && current >= 0 && current <= total && total <= 1<<40)
	vAssume(avg.val >= 0 && avg.val <= 1<<40)
	rem := (total - current) * vInt64("avgNanos")
	vAssume(rem < 60*3600*1000000000)
	d := MovingAverageETA(ET_STYLE_HHMMSS, avg, nil)
	d.Decor(Statistics{Total: total, Current: current})
	vAssert(vGhostLen("sprintf.int") == 3, "C20.etadecor.fields")
	h, m, s := vGhostAt("sprintf.int", 0), vGhostAt("sprintf.int", 1), vGhostAt("sprintf.int", 2)
	vAssert(h*3600+m*60+s == rem/1000000000, "C20.etadecor.remaining-time")
	vCover("C20.etadecor.reach")
}

// elapsed time and average speed stop changing once the bar has completed
func vhC20Frozen() {
	vSincePositive()
	start := time.Now()
	e := NewElapsed(ET_STYLE_GO, start)
	sp := NewAverageSpeed(0, "%.1f", start)
	st := Statistics{Total: 10, Current: vInt64("current")}
	e.Decor(st)
	sp.Decor(st)
	st.Completed = true
	st.Current = 10
	e1, _ := e.Decor(st)
	s1, _ := sp.Decor(st)
	e2, _ := e.Decor(st)
	s2, _ := sp.Decor(st)
	vAssert(e1 == e2, "C20.frozen.elapsed")
	vAssert(s1 == s2, "C20.frozen.average-speed")
	vCover("C20.frozen.reach")
}

// value decorators are stateless: what a call prints depends only on the Statistics it is given
func vhC20PercentageTwice() {
	d := NewPercentage("%.2f")
	t1, c1, t2, c2 := vInt64("total1"), vInt64("current1"), vInt64("total2"), vInt64("current2")
	vAssume(t1 > 0 && c1 >= 0 && c1 <= t1 && t1 <= 1<<46)
	vAssume(t2 > 0 && c2 >= 0 && c2 <= t2 && t2 <= 1<<46)
	d.Decor(Statistics{Total: t1, Current: c1})
	d.Decor(Statistics{Total: t2, Current: c2})
	vAssert(vGhostLen("appendfloat.value") == 2, "C20.percentage2.two-numbers")
	x2 := vGhostAtF("appendfloat.value", 1)
	exact := 100 * float64(c2) / float64(t2)
	vAssert(vAbsLE(x2, exact, exact/(1<<50)), "C20.percentage2.second-call-shows-its-own-value")
	vCover("C20.percentage2.reach")
}

// the default moving average of the ETA/speed estimators (NewMedian): the value is the median of the last three
// samples whatever was read in between (reading the value must not disturb which sample is evicted next)
func vMedian3(a, b, c float64) float64 {
	if a > b {
		a, b = b, a
	}
	if b > c {
		b = c
	}
	if a > b {
		b = a
	}
	return b
}

func vhC20Median() {
	m := NewMedian()
	a, b, c, d, e := float64(vInt64("s0")), float64(vInt64("s1")), float64(vInt64("s2")), float64(vInt64("s3")), float64(vInt64("s4"))
	vAssume(a >= 0 && b >= 0 && c >= 0 && d >= 0 && e >= 0)
	vAssume(a <= 1<<50 && b <= 1<<50 && c <= 1<<50 && d <= 1<<50 && e <= 1<<50)
	m.Add(a)
	m.Add(b)
	m.Add(c)
	vAssert(m.Value() == vMedian3(a, b, c), "C20.median.of-first-three")
	m.Add(d)
	vAssert(m.Value() == vMedian3(b, c, d), "C20.median.oldest-sample-evicted")
	vAssert(m.Value() == vMedian3(b, c, d), "C20.median.reading-twice-same-value")
	m.Add(e)
	vAssert(m.Value() == vMedian3(c, d, e), "C20.median.reading-does-not-disturb-eviction")
	vCover("C20.median.reach")
}

// average ETA (NewAverageETA): remaining = (total-current) * round(elapsed/current), printed through the h:m:s
// producer, for byte-sized counters.  The elapsed time is chosen by the harness (vStartAgo): concrete whole
// seconds per run (parameter), so that the per-item duration is a constant and the product stays linear; total
// is symbolic, current one of three magnitudes.  Natively the clock adds the duration of the call, hence an
// interval oracle of 100 ms.
func vDivRound(a, b int64) int64 { return (a + b/2) / b }

func vhC20AverageETA() {
	el := int64(vParam("elapsedSec")) * 1000000000
	var current int64
	switch vParam("currentExp") {
	case 0:
		current = 1
	case 1:
		current = 7000
	default:
		current = 1000000000
	}
	total := vInt64("total")
	vAssume(total >= current && total <= 1<<46)
	lo := (total - current) * vDivRound(el, current)
	hi := (total - current) * vDivRound(el+100000000, current)
	vAssume(hi < 60*3600*1000000000)
	d := NewAverageETA(ET_STYLE_HHMMSS, vStartAgo(el), nil)
	d.Decor(Statistics{Total: total, Current: current})
	vAssert(vGhostLen("sprintf.int") == 3, "C20.avgeta.fields")
	h, m, s := vGhostAt("sprintf.int", 0), vGhostAt("sprintf.int", 1), vGhostAt("sprintf.int", 2)
	got := h*3600 + m*60 + s
	vAssert(m >= 0 && m < 60 && s >= 0 && s < 60 && h >= 0, "C20.avgeta.fields-in-range")
	vAssert(got >= lo/1000000000 && got <= hi/1000000000+1, "C20.avgeta.remaining-time")
	vCover("C20.avgeta.reach")
}
