package mpb

import (
	"context"
	"io"
	"time"

	"github.com/vbauerster/mpb/v8/decor"
)

// Component harness with a symbolic schedule: the life of ONE bar between its client, the real Bar.serve
// goroutine and a stand-in for the container's render/flush loop (the same protocol as pState.render/flush:
// go b.render(w); frame := <-b.frameCh; cancel the bar on the frame whose shutdown counter is 1).  The client
// performs two mutators with symbolic arguments (increments, SetTotal, Abort, EnableTriggerComplete) at
// arbitrary points between the frames; the scheduler's choice is a solver variable at every move.
//
// Decided for every schedule and every argument (C11, C03, C09 at the frame level, C01/C16 for the bar's
// goroutines, C10 race class):
//   - every render request yields exactly one frame, also after the bar goroutine has gone (no hang);
//   - what the frames show is stable: once a frame shows completed (aborted) every later frame and the
//     getters after Wait show completed (aborted), never both; current never decreases under non-negative
//     increments and the final getter values equal what the last terminal frame showed;
//   - the shutdown counters of the terminal frames are 0,1,2,... (the container cancels on 1, i.e. after the
//     terminal state has been drawn twice) and no frame before the first terminal one carries rm/noPop marks;
//   - Bar.Wait returns once the container has cancelled the bar; nobody is left blocked.

type vLifeFiller struct {
	n    int
	cur  [4]int64
	done [4]bool
	ab   [4]bool
}

func (f *vLifeFiller) Fill(w io.Writer, st decor.Statistics) error {
	if f.n < 4 {
		f.cur[f.n], f.done[f.n], f.ab[f.n] = st.Current, st.Completed, st.Aborted
	}
	f.n++
	_, err := io.WriteString(w, vMakeText(1, 0))
	return err
}

func vLifeOp(b *Bar, tag string) (nonneg bool) {
	switch op := vInt(tag + ".op"); op {
	case 0:
		n := vInt64(tag + ".n")
		vAssume(n >= -4 && n <= 1<<40)
		b.IncrInt64(n)
		return n >= 0
	case 1:
		n := vInt64(tag + ".n")
		vAssume(n >= 0 && n <= 1<<40)
		b.EwmaIncrInt64(n, time.Duration(vInt64(tag+".d")))
		return true
	case 2:
		t := vInt64(tag + ".t")
		complete := vBool(tag + ".complete")
		b.SetTotal(t, complete)
		return !complete // completing sets current to the total, which may be lower
	case 3:
		b.Abort(vBool(tag + ".drop"))
		return true
	case 4:
		b.EnableTriggerComplete()
		return false // caps current at the total, which may be lower (also negative)
	default:
		vAssume(op == 5)
		return true
	}
}

func vhBarLife() {
	auto := vParam("auto") == 1
	renderReq := make(chan time.Time, 1)
	done := make(chan struct{})
	close(done) // traverseBars of the early-refresh helper finds a finished container: no other bar is running
	p := &Progress{done: done}
	ps := pState{reqWidth: 20, renderReq: renderReq, autoRefresh: auto}
	fl := &vLifeFiller{}
	total := vInt64("total")
	vAssume(total >= -1 && total <= 1<<40)
	bs := ps.makeBarState(total, fl, BarFillerTrim())
	b := newBar(context.Background(), p, bs)

	const frames = 3
	var shut [frames]int
	var rm, nopop [frames]bool
	contDone := make(chan struct{})
	go func() { // the container's side of pState.render + pState.flush for one bar
		for i := 0; i < frames; i++ {
			go b.render(20)
			f := <-b.frameCh
			vAssert(f.err == nil && len(f.rows) == 1, "life.one-row-per-frame")
			for _, r := range f.rows {
				_, _ = io.Copy(io.Discard, r)
			}
			shut[i], rm[i], nopop[i] = f.shutdown, f.rmOnComplete, f.noPop
			if f.shutdown == 1 {
				b.cancel()
			}
		}
		close(contDone)
	}()

	nn1 := vLifeOp(b, "op1")
	nn2 := vLifeOp(b, "op2")
	<-contDone
	vAssert(fl.n == frames, "life.every-render-request-draws-once")

	// what the frames showed
	term := 0 // terminal frames so far
	for i := 0; i < frames; i++ {
		vAssert(!(fl.done[i] && fl.ab[i]), "life.frame-never-completed-and-aborted")
		if i > 0 {
			if fl.done[i-1] && nn1 && nn2 {
				vAssert(fl.done[i] && !fl.ab[i], "life.completed-stays-completed-in-later-frames")
				vAssert(fl.cur[i] == fl.cur[i-1], "life.completed-bar-keeps-its-current")
			}
			if fl.ab[i-1] {
				vAssert(fl.ab[i] && !fl.done[i], "life.aborted-stays-aborted-in-later-frames")
			}
			if nn1 && nn2 {
				vAssert(fl.cur[i] >= fl.cur[i-1], "life.current-never-decreases-between-frames")
			}
		}
		if fl.done[i] || fl.ab[i] {
			vAssert(shut[i] == term, "life.shutdown-counter-counts-terminal-frames")
			term++
		} else {
			vAssert(shut[i] == 0 && !rm[i] && !nopop[i], "life.running-frame-carries-no-shutdown-marks")
		}
	}
	if term >= 2 {
		// the container has cancelled the bar: Wait returns and the getters agree with the last frame
		b.Wait()
		vAssert(!b.IsRunning(), "life.cancelled-after-second-terminal-frame")
		vAssert(b.Completed() == fl.done[frames-1] && b.Aborted() == fl.ab[frames-1], "life.getters-after-wait-agree-with-last-frame")
		vAssert(b.Current() == fl.cur[frames-1], "life.current-after-wait-is-what-the-last-frame-showed")
		p.bwg.Wait()
	} else {
		// still running or drawn terminal only once: stop it the way a cancelled container would
		b.cancel()
		b.Wait()
		vAssert(b.Completed() != b.Aborted(), "life.exactly-one-terminal-flag-after-exit")
		if fl.done[frames-1] {
			vAssert(b.Completed(), "life.completed-frame-then-completed-getter")
		}
		p.bwg.Wait()
	}
	vCover("life.reach")
}
