package mpb

import (
	"bytes"
	"context"
	"io"
	"strings"
	"time"

	"github.com/vbauerster/mpb/v8/cwriter"
	"github.com/vbauerster/mpb/v8/decor"
)

// recorder of what reaches the terminal, one entry per Write (= one flush)
type vTermRec struct {
	writes int
	cuu    [3]int // cursor-up amount at the start of each write
	nl     [3]int // newlines in each write
	id     [3]int // content identity of each write
}

func (r *vTermRec) Write(p []byte) (int, error) {
	s := string(p)
	if r.writes < 3 {
		r.cuu[r.writes] = vTextCUU(s)
		r.nl[r.writes] = vTextNL(s)
		r.id[r.writes] = vTextID(s)
	}
	r.writes++
	return len(p), nil
}

type vFrameSpec struct {
	rows     int
	shutdown int
	noPop    bool
	rm       bool
}

func vFrame(name string) vFrameSpec {
	f := vFrameSpec{rows: vInt(name + ".rows"), shutdown: vInt(name + ".shutdown"), noPop: vBool(name + ".noPop"), rm: vBool(name + ".rm")}
	vAssume(f.rows >= 1 && f.rows <= 2 && f.shutdown >= 0 && f.shutdown <= 3)
	return f
}

var vRowBufs []*bytes.Buffer

// vFeed plays the heap manager's ordered iteration: bars arrive with their frame already rendered.
func vFeed(bars []*Bar, specs []vFrameSpec, iter chan *Bar) {
	for i, b := range bars {
		fr := &renderFrame{shutdown: specs[i].shutdown, noPop: specs[i].noPop, rmOnComplete: specs[i].rm}
		for j := 0; j < specs[i].rows; j++ {
			// rows read from a buffer that outlives the frame, as the bar's own buffers do
			rb := new(bytes.Buffer)
			rb.WriteString(vMakeText(3+i, 1))
			vRowBufs = append(vRowBufs, rb)
			fr.rows = append(fr.rows, rb)
		}
		b.frameCh <- fr
		iter <- b
	}
	close(iter)
}

// C04/C18 at pState.flush + cwriter.Writer.Flush: the cursor-up prepared for the next frame equals the number
// of lines of this frame that must be redrawn (rows of bars not popped in this frame), and they fit the screen.
func vC04Flush(n int, pop bool) {
	vUnwind(8)
	vRowBufs = nil
	rec := &vTermRec{}
	height := vInt("height")
	vAssume(height >= 2 && height <= 8)
	cw := cwriter.VNewTerm(rec, nil)
	s := &pState{popCompleted: pop, hm: newHeapManager(16), queueBars: make(map[*Bar]*Bar), iterDrop: make(chan struct{})}
	bars := make([]*Bar, n)
	specs := make([]vFrameSpec, n)
	for i := 0; i < n; i++ {
		bars[i] = vBarFor(&bState{})
		bars[i].priority = i
	}
	if n > 0 {
		specs[0] = vFrame("f0")
	}
	if n > 1 {
		specs[1] = vFrame("f1")
	}
	if n > 2 {
		specs[2] = vFrame("f2")
	}
	iter := make(chan *Bar)
	go vFeed(bars, specs, iter)
	err := s.flush(cw, height, iter)
	vAssert(err == nil, "C04.flush.noerror")
	// oracle: lines shown, lines that persist (popped in this frame), bars that stay in the heap
	shown, popped, stay := 0, 0, 0
	for i := 0; i < n; i++ {
		used := specs[i].rows
		if shown+used > height-1 { // rows are clipped so that the cursor line stays on screen
			used = height - 1 - shown
		}
		if used < 0 {
			used = 0
		}
		shown += used
		isPop := pop && !specs[i].noPop
		switch {
		case specs[i].shutdown == 2 && isPop:
			popped += used
		case specs[i].shutdown == 1 && !isPop && specs[i].rm:
		default:
			stay++
		}
	}
	// second, empty frame: its single write starts with the cursor-up prepared by the first
	iter2 := make(chan *Bar)
	close(iter2)
	err = s.flush(cw, height, iter2)
	vAssert(err == nil, "C04.flush.noerror2")
	vAssert(rec.writes >= 1 && rec.nl[0] == shown, "C04.flush.one-line-per-row")
	vAssert(rec.cuu[0] == 0, "C04.flush.first-frame-has-no-cursor-up")
	redraw := shown - popped
	if redraw > 0 {
		vAssert(rec.writes == 2 && rec.cuu[1] == redraw, "C04.flush.cursor-up-equals-lines-to-redraw")
	} else {
		vAssert(rec.writes == 1, "C04.flush.nothing-to-redraw-no-cursor-up")
	}
	// the cursor sits on the line after the last row: the redrawn lines must leave that line on screen
	vAssert(redraw <= height-1, "C04.flush.redrawn-lines-fit-the-screen")
	// every row of the frame has been consumed, shown or not: a bar's buffers are reused for its next frame
	for _, rb := range vRowBufs {
		vAssert(rb.Len() == 0, "C04.flush.rows-that-do-not-fit-are-discarded-not-kept-for-the-next-frame")
	}
	// bars handed back to the heap manager
	back := 0
	for len(s.hm.req) > 0 {
		<-s.hm.req
		back++
	}
	vAssert(back == stay, "C05.flush.exactly-the-remaining-bars-are-pushed-back")
	vCover("C04.flush.reach")
}

func vhC04Flush1()    { vC04Flush(1, false) }
func vhC04Flush2()    { vC04Flush(2, false) }
func vhC04Flush3()    { vC04Flush(3, false) }
func vhC18Flush1Pop() { vC04Flush(1, true) }
func vhC18Flush2Pop() { vC04Flush(2, true) }
func vhC18Flush3Pop() { vC04Flush(3, true) }

var _ = io.Discard

// C04 (extender): every extra row handed to flush is exactly one terminal line, whatever the filler wrote
// (complete lines, possibly followed by an unterminated fragment, which is dropped).
func vhC04Extender() {
	vUnwind(6)
	lines := vInt("lines")
	frag := vInt("fragmentWidth")
	vAssume(lines >= 0 && lines <= 3 && frag >= 0 && frag <= 5)
	rev := vBool("rev")
	filler := BarFillerFunc(func(w io.Writer, st decor.Statistics) error {
		for i := 0; i < lines; i++ {
			io.WriteString(w, vMakeText(4, 1))
		}
		_, err := io.WriteString(w, vMakeText(frag, 0))
		return err
	})
	ext := makeExtenderFunc(filler, rev)
	base := strings.NewReader(vMakeText(10, 1))
	rows, err := ext(decor.Statistics{}, base)
	vAssert(err == nil, "C04.extender.noerror")
	vAssert(len(rows) == 1+lines, "C04.extender.one-row-per-complete-line")
	for _, r := range rows {
		var b bytes.Buffer
		b.ReadFrom(r)
		vAssert(vTextNL(b.String()) == 1, "C04.extender.each-row-is-one-line")
	}
	// the buffer is empty again: the fragment does not leak into the next frame
	rows2, _ := ext(decor.Statistics{}, strings.NewReader(vMakeText(10, 1)))
	vAssert(len(rows2) == 1+lines, "C04.extender.no-leftover-in-next-frame")
	vCover("C04.extender.reach")
}

// ---- C03/C04 (render delay), every schedule: the real Progress.serve in the state "the render delay has ended and
// the container is done" (both channels ready), with the real heap manager and no refresh listener. Text accepted
// earlier sits in the container's writer; the final render has to bring it (and the bars) to the real output,
// whichever ready channel the container goroutine looks at first.
func vhC03ServeDelayDone() {
	rec := &vFrameRec{}
	cw := cwriter.New(rec)
	delay := make(chan struct{})
	done := make(chan struct{})
	ctx, cancel := context.WithCancel(context.Background())
	p := &Progress{
		operateState: make(chan func(*pState)),
		interceptIO:  make(chan func(io.Writer)),
		done:         done,
		cancel:       cancel,
	}
	s := &pState{
		ctx:         ctx,
		hm:          newHeapManager(2),
		iterDrop:    make(chan struct{}),
		renderReq:   make(chan time.Time),
		autoRefresh: true,
		delayRC:     delay,
		queueBars:   make(map[*Bar]*Bar),
		debugOut:    io.Discard,
	}
	go s.hm.run()
	_, _ = cw.Write([]byte(vMakeText(100, 1)))
	if vBool("delayEnded") {
		close(delay)
	}
	close(done)
	p.pwg.Add(1)
	go p.serve(s, cw)
	p.pwg.Wait()
	if vBool("delayEnded") {
		vAssert(rec.n == 1 && rec.w[0] == 100 && rec.nl[0] == 1, "C03.serve.final-frame-reaches-the-output-once-the-delay-has-ended")
	} else {
		vAssert(rec.n == 0, "C04.serve.nothing-written-while-the-delay-is-pending")
	}
	vCover("C03.serve.reach")
}
