package mpb

// C05 at the heap manager: one ordered iteration delivers every bar exactly once; when the consumer
// abandons the cycle (drop) the undelivered bars stay in the heap; nothing is lost or duplicated.
func vhC05Iter1() { vC05Iter(1) }
func vhC05Iter2() { vC05Iter(2) }
func vhC05Iter3() { vC05Iter(3) }
func vhC05Iter4() { vC05Iter(4) }

func vC05Iter(n int) {
	vUnwind(8)
	bars := vBars4()
	m := newHeapManager(8)
	go m.run()
	for i := 0; i < n; i++ {
		m.push(bars[i], false)
	}
	drop := make(chan struct{})
	iter, iterPop := make(chan *Bar), make(chan *Bar)
	m.iter(drop, iter, iterPop)
	seen := 0
	for range iter {
		seen++
	}
	vAssert(seen == n, "C05.iter.unordered-pass-visits-every-bar")
	// the consumer takes k bars from the ordered pass, then abandons it (k == n: takes all)
	k := vInt("takes")
	vAssume(k >= 0 && k <= n)
	var got [4]bool
	delivered := 0
	for delivered < k {
		b, ok := <-iterPop
		vAssert(ok, "C05.iter.ordered-pass-has-a-bar-for-every-member")
		for j := 0; j < 4; j++ {
			if bars[j] == b {
				vAssert(!got[j], "C05.iter.no-bar-delivered-twice")
				got[j] = true
			}
		}
		delivered++
	}
	if k < n {
		close(drop)
	} else {
		_, ok := <-iterPop
		vAssert(!ok, "C05.iter.closed-after-last-bar")
	}
	// what is left in the heap is exactly the bars not delivered
	ch := make(chan interface{}, 1)
	m.end(ch)
	rest := (<-ch).([]*Bar)
	vAssert(len(rest) == n-k, "C05.iter.undelivered-bars-stay-in-the-heap")
	for _, b := range rest {
		for j := 0; j < 4; j++ {
			if bars[j] == b {
				vAssert(!got[j], "C05.iter.remaining-bar-was-not-delivered")
				got[j] = true
			}
		}
	}
	for j := 0; j < 4; j++ {
		vAssert(got[j] == (j < n), "C05.iter.delivered-plus-remaining-is-everything")
	}
	vCover("C05.iter.reach")
}

// C05/C01/C12 at the heap manager, every schedule: the container goroutine's part of two consecutive render cycles
// (sync, ordered iteration, push everything back, sync, ordered iteration) against the real heapManager.run,
// with a request queue shorter than the number of bars (push-backs travel in detached goroutines). Whatever the
// interleaving of the manager and the detached senders, the second cycle must see every bar (C05) and every bar
// it hands out must be a member of the width-sync column started for that cycle (C12; otherwise the bar's
// decorator waits for ever and the cycle never ends, C01). Whole schedule symbolic.
func vhC05Cycle() {
	vUnwind(6)
	q := vParam("queueLen")
	m := newHeapManager(q)
	go m.run()
	var bars [2]*Bar
	var chans [2]chan int
	for i := 0; i < 2; i++ {
		d := vNewSync(vMakeText(i+1, 0))
		ps := pState{idCount: i}
		bs := ps.makeBarState(10, NopStyle().Build(), PrependDecorators(d))
		b := vBarFor(bs)
		// the state is published: the manager reads the sync table without a bar goroutine
		b.bs = bs
		close(b.bsOk)
		bars[i] = b
		chans[i], _ = d.Sync()
		m.push(b, true)
	}
	for cycle := 0; cycle < 2; cycle++ {
		drop := make(chan struct{})
		iter, iterPop := make(chan *Bar), make(chan *Bar)
		m.sync(drop)
		m.iter(drop, iter, iterPop)
		for range iter {
		}
		var popped [2]*Bar
		n := 0
		for b := range iterPop {
			vAssert(n < 2 && (n == 0 || popped[0] != b), "C05.cycle.no-bar-handed-out-twice")
			if n < 2 {
				popped[n] = b
			}
			n++
		}
		if cycle == 1 {
			vAssert(n == 2, "C05.cycle.second-cycle-sees-every-bar")
		}
		// every bar handed out takes part in the width exchange of this cycle (as WC.Format does)
		done := make(chan int)
		for i := 0; i < n && i < 2; i++ {
			ch := chans[0]
			if popped[i] == bars[1] {
				ch = chans[1]
			}
			go func() {
				ch <- 1
				done <- <-ch
			}()
		}
		for i := 0; i < n && i < 2; i++ {
			<-done
		}
		close(drop)
		for i := 0; i < n && i < 2; i++ {
			m.push(popped[i], false)
		}
	}
	out := make(chan interface{}, 1)
	m.end(out)
	rest := (<-out).([]*Bar)
	vAssert(len(rest) == 2, "C05.cycle.both-bars-still-in-the-container")
	vCover("C05.cycle.reach")
}

// ---- queue length: WithQueueLen is honoured (C05: "any number of bars relative to the queue length")
func vsQueueLen() {
	q := vParam("queueLen")
	e := vNewContainer(vManual, q)
	got := -1
	done := make(chan struct{})
	e.p.operateState <- func(s *pState) {
		got = cap(s.hm.req)
		close(done)
	}
	<-done
	vAssert(got == q, "Q.heap-manager-queue-has-the-configured-length")
	e.vFinish("Q")
}
