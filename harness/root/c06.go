package mpb

import (
	"container/heap"
	"context"
)

func vBars4() [4]*Bar {
	var bars [4]*Bar
	bars[0] = &Bar{priority: vInt("prio0"), index: -1}
	bars[1] = &Bar{priority: vInt("prio1"), index: -1}
	bars[2] = &Bar{priority: vInt("prio2"), index: -1}
	bars[3] = &Bar{priority: vInt("prio3"), index: -1}
	return bars
}

func vHeapOK(pq priorityQueue) bool {
	ok := true
	for i := range pq {
		if pq[i].index != i {
			ok = false
		}
		if i > 0 && pq[(i-1)/2].priority < pq[i].priority {
			ok = false
		}
	}
	return ok
}

// C06 (priority queue through the real container/heap): pushing n<=4 bars with arbitrary priorities keeps the
// heap invariant and the index fields; popping returns non-increasing priorities (rows are written in reverse,
// so top to bottom is non-decreasing) and resets index to -1.
func vhC06Heap() {
	vUnwind(8)
	bars := vBars4()
	n := vInt("n")
	vAssume(n >= 0 && n <= 4)
	var pq priorityQueue
	for i := 0; i < n; i++ {
		heap.Push(&pq, bars[i])
		vAssert(vHeapOK(pq), "C06.heap.invariant-after-push")
	}
	vAssert(pq.Len() == n, "C06.heap.len")
	// immediate priority change of an arbitrary member (UpdateBarPriority, lazy=false)
	if n > 0 && vBool("fix") {
		k := vInt("k")
		vAssume(k >= 0 && k < n)
		bars[k].priority = vInt("newprio")
		heap.Fix(&pq, bars[k].index)
		vAssert(vHeapOK(pq), "C06.heap.invariant-after-fix")
	}
	first := true
	prev := 0
	popped := 0
	for pq.Len() != 0 {
		b := heap.Pop(&pq).(*Bar)
		vAssert(b.index == -1, "C06.heap.popped-index-reset")
		vAssert(first || b.priority <= prev, "C06.heap.pop-order-non-increasing")
		vAssert(vHeapOK(pq), "C06.heap.invariant-after-pop")
		first = false
		prev = b.priority
		popped++
	}
	vAssert(popped == n, "C06.heap.every-bar-popped-once")
	vCover("C06.heap.reach")
}

// C06 lazy change: the priority field changes at once, the heap is rebuilt by the next cycle's pushes.
func vhC06Lazy() {
	vUnwind(8)
	bars := vBars4()
	var pq priorityQueue
	for i := 0; i < 4; i++ {
		heap.Push(&pq, bars[i])
	}
	k := vInt("k")
	vAssume(k >= 0 && k < 4)
	bars[k].priority = vInt("newprio") // lazy: no Fix
	// next cycle: ordered iteration pops everything, flush pushes everything back
	var tmp [4]*Bar
	for i := 0; i < 4; i++ {
		tmp[i] = heap.Pop(&pq).(*Bar)
	}
	for i := 0; i < 4; i++ {
		heap.Push(&pq, tmp[i])
	}
	vAssert(vHeapOK(pq), "C06.lazy.heap-restored-by-next-cycle")
	vCover("C06.lazy.reach")
}

// C06 (default priority is creation order; an explicit BarPriority is honoured whatever its value): the real
// makeBarState for the n-th bar of a container, with and without an explicit priority.
func vhC06MakeBarState() {
	ps := pState{idCount: vInt("idCount")}
	vAssume(ps.idCount >= 0)
	explicit := vBool("explicit")
	prio := vInt("priority")
	var opts []BarOption
	if explicit {
		opts = append(opts, BarPriority(prio))
	}
	if vBool("withID") {
		opts = append(opts, BarID(vInt("id")))
	}
	bs := ps.makeBarState(vInt64("total"), NopStyle().Build(), opts...)
	if explicit {
		vAssert(bs.priority == prio, "C06.make.explicit-priority-honoured")
	} else {
		vAssert(bs.priority == ps.idCount, "C06.make.default-priority-is-creation-order")
	}
	b := newBar(context.Background(), &Progress{}, bs)
	vAssert(b.priority == bs.priority, "C06.make.bar-carries-the-priority")
	b.cancel()
	vCover("C06.make.reach")
}
