package mpb

import (
	"bytes"
	"io"

	"github.com/vbauerster/mpb/v8/decor"
	"github.com/vbauerster/mpb/v8/internal"
)

const vC07W = 8 // terminal width bound of the quick tier

func vStyleText(name string, maxw int) string {
	s := vText(name)
	vAssume(vTextWidth(s) <= maxw)
	return s
}

// vSymbolicBarFiller: the real barStyle.Build() on component strings of arbitrary display width 0..2.
func vSymbolicBarFiller(rev, tipOnComplete bool) *bFiller {
	st := BarStyle().
		Lbound(vStyleText("lbound", 2)).
		Rbound(vStyleText("rbound", 2)).
		Filler(vStyleText("filler", 2)).
		Refiller(vStyleText("refiller", 2)).
		Padding(vStyleText("padding", 2)).
		Tip(vStyleText("tip0", 2), vStyleText("tip1", 2))
	if rev {
		st = st.Reverse()
	}
	if tipOnComplete {
		st = st.TipOnComplete()
	}
	f := st.Build().(*bFiller)
	f.tip.count = vUint("tipCount")
	vAssume(f.tip.count <= 1<<40) // the frame counter wraps only after 2^64 draws (outside the claim)
	return f
}

func vStat(maxw int) decor.Statistics {
	st := decor.Statistics{
		AvailableWidth: vInt("avail"),
		RequestedWidth: vInt("req"),
		Total:          vInt64("total"),
		Current:        vInt64("current"),
		Refill:         vInt64("refill"),
		Completed:      vBool("completed"),
		Aborted:        vBool("aborted"),
	}
	vAssume(st.AvailableWidth >= 0 && st.AvailableWidth <= maxw)
	return st
}

// C07 (bar filler): Fill terminates, never exceeds the width it may use, and fills it exactly when it draws a body.
func vhC07FillFwd()    { vC07Fill(false, false) }
func vhC07FillRev()    { vC07Fill(true, false) }
func vhC07FillFwdTip() { vC07Fill(false, true) }
func vhC07FillRevTip() { vC07Fill(true, true) }

func vC07Fill(rev, tipOnComplete bool) {
	vUnwind(vC07W + 3)
	f := vSymbolicBarFiller(rev, tipOnComplete)
	stat := vStat(vC07W)
	var buf bytes.Buffer
	err := f.Fill(&buf, stat)
	vAssert(err == nil, "C07.fill.noerror")
	w := vTextWidth(buf.String())
	allotted := internal.CheckRequestedWidth(stat.RequestedWidth, stat.AvailableWidth)
	vAssert(w <= stat.AvailableWidth, "C07.fill.fits-available")
	inner := allotted - f.components[iLbound].width - f.components[iRbound].width
	if inner < 0 {
		vAssert(w == 0, "C07.fill.nothing-when-brackets-dont-fit")
	} else {
		vAssert(w == allotted, "C07.fill.exact")
	}
	vCover("C07.fill.reach")
}

// Contract of internal.PercentageRound used by the row-width harnesses (assume-guarantee): exactly the facts
// the C08 kernel harness proves for every int64 total/current and width < 65536:
// integral result in [0,width], 0 when total<=0 or current<=0, width when current>=total>0.
var vPRCalls int

func vmPercentageRound(total, current int64, width uint) float64 {
	var r int64
	if vPRCalls == 0 {
		r = vInt64("pround0")
	} else if vPRCalls == 1 {
		r = vInt64("pround1")
	} else {
		r = vInt64("pround2")
	}
	vPRCalls++
	vAssume(r >= 0 && r <= int64(width))
	if total <= 0 || current <= 0 {
		vAssume(r == 0)
	} else if current >= total {
		vAssume(r == int64(width))
	}
	return float64(r)
}

// ---- draw: the whole row (decorators, spacing, filler) fits the terminal width

// Contract of a bar filler used by the row harness: writes at most AvailableWidth columns and no newline
// (proved for the built-in fillers by C07.fill.* and C07.spinner.*).
func vContractFiller() BarFiller {
	return BarFillerFunc(func(w io.Writer, st decor.Statistics) error {
		if st.AvailableWidth <= 0 {
			return nil // nothing fits: the built-in fillers write nothing
		}
		fw := vInt("filler.out.w")
		vAssume(fw >= 0 && fw <= st.AvailableWidth)
		_, err := io.WriteString(w, vMakeText(fw, 0))
		return err
	})
}

// vDecorCalls counts the calls of every decorator of the row harness: a decorator has to be called in every
// draw, shown or not (a width-synchronised one that is skipped stalls its whole column, see decor.Decorator).
var vDecorCalls [4]int

func vPlainDecorator(name string) decor.Decorator { return vCountedDecorator(name, -1) }

func vCountedDecorator(name string, slot int) decor.Decorator {
	txt := vText(name + ".text")
	vAssume(vTextWidth(txt) <= 30)
	w := vInt(name + ".W")
	vAssume(w >= 0 && w <= 30)
	return decor.Any(func(decor.Statistics) string {
		if slot >= 0 {
			vDecorCalls[slot]++
		}
		return txt
	}, decor.WC{W: w, C: vWCFlags(name + ".C")})
}

func vhC07Draw() {
	tw := vInt("tw")
	vAssume(tw >= 0 && tw <= 60)
	ps := pState{reqWidth: vInt("reqWidth")}
	var pre, app []decor.Decorator
	vDecorCalls = [4]int{}
	var want [4]int
	if vBool("pre0") {
		pre = append(pre, vCountedDecorator("p0", 0))
		want[0] = 1
	}
	if vBool("pre1") {
		pre = append(pre, vCountedDecorator("p1", 1))
		want[1] = 1
	}
	if vBool("app0") {
		app = append(app, vCountedDecorator("a0", 2))
		want[2] = 1
	}
	if vBool("app1") {
		app = append(app, vCountedDecorator("a1", 3))
		want[3] = 1
	}
	opts := []BarOption{PrependDecorators(pre...), AppendDecorators(app...)}
	if vBool("trim") {
		opts = append(opts, BarFillerTrim())
	}
	bs := ps.makeBarState(vInt64("total"), vContractFiller(), opts...)
	bs.current = vInt64("current")
	stat := bs.newStatistics(tw)
	r, err := bs.draw(stat)
	vAssert(err == nil, "C07.draw.noerror")
	var row bytes.Buffer
	row.ReadFrom(r)
	s := row.String()
	vAssert(vTextWidth(s) <= tw, "C07.draw.row-fits-terminal")
	vAssert(vTextNL(s) == 1, "C07.draw.one-line")
	vAssert(vDecorCalls == want, "C07.draw.every-decorator-is-called-exactly-once-whatever-fits")
	vCover("C07.draw.reach")
}

// ---- WC.Format: reported width equals the display width of the returned string
func vhC07Format() {
	txt := vText("text")
	vAssume(vTextWidth(txt) <= 1000)
	w := vInt("W")
	vAssume(w >= -5 && w <= 1000)
	wc := decor.WC{W: w, C: vWCFlags("C")}
	wc.Init()
	s, width := wc.Format(txt)
	vAssert(width == vTextWidth(s), "C07.format.width-is-display-width")
	vAssert(width >= vTextWidth(txt), "C07.format.never-narrower-than-text")
	vCover("C07.format.reach")
}

// ---- spinner filler
func vhC07Spinner() {
	f0 := vText("frame0")
	f1 := vText("frame1")
	vAssume(vTextWidth(f0) <= 4 && vTextWidth(f1) <= 4)
	st := SpinnerStyle(f0, f1)
	pos := vInt("position")
	vAssume(pos >= 0 && pos <= 2)
	if pos == 1 {
		st = st.PositionLeft()
	} else if pos == 2 {
		st = st.PositionRight()
	}
	// Meta decorates the frame with escape codes: they take no columns on the terminal, but a width measurement
	// of the decorated string counts their printable bytes (k columns here).
	esc := vText("sgr")
	k := vTextWidth(esc)
	vAssume(k <= 9)
	metaCalls := 0
	if vBool("withMeta") {
		st = st.Meta(func(s string) string { metaCalls++; return esc + s })
	}
	f := st.Build().(*sFiller)
	f.count = vUint("count")
	vAssume(f.count <= 1<<40)
	fw := vTextWidth(f0)
	if f.count%2 == 1 {
		fw = vTextWidth(f1)
	}
	stat := vStat(200)
	var buf bytes.Buffer
	err := f.Fill(&buf, stat)
	vAssert(err == nil, "C07.spinner.noerror")
	w := vTextWidth(buf.String())
	vAssert(metaCalls <= 1, "C07.spinner.meta-applied-at-most-once")
	if metaCalls > 0 && w >= k {
		w -= k // columns on the terminal
	}
	allotted := internal.CheckRequestedWidth(stat.RequestedWidth, stat.AvailableWidth)
	vAssert(w <= stat.AvailableWidth, "C07.spinner.fits-available")
	vAssert(w == 0 || w == allotted, "C07.spinner.exact-or-nothing")
	if fw <= allotted {
		vAssert(w == allotted, "C07.spinner.a-frame-that-fits-is-drawn-in-the-allotted-width")
	}
	vCover("C07.spinner.reach")
}
