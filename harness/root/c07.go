package mpb

import (
	"bytes"

	"github.com/vbauerster/mpb/v8/decor"
	"github.com/vbauerster/mpb/v8/internal"
)

const vC07W = 8 // terminal width bound of the quick tier

func vStyleText(name string, maxw int) string {
	s := vText(name)
	vAssume(vTextWidth(s) <= maxw)
	return s
}

// vSymbolicBarFiller: the real barStyle.Build() on component strings of arbitrary display width 0..2.
func vSymbolicBarFiller(rev, tipOnComplete bool) *bFiller {
	st := BarStyle().
		Lbound(vStyleText("lbound", 2)).
		Rbound(vStyleText("rbound", 2)).
		Filler(vStyleText("filler", 2)).
		Refiller(vStyleText("refiller", 2)).
		Padding(vStyleText("padding", 2)).
		Tip(vStyleText("tip0", 2), vStyleText("tip1", 2))
	if rev {
		st = st.Reverse()
	}
	if tipOnComplete {
		st = st.TipOnComplete()
	}
	f := st.Build().(*bFiller)
	f.tip.count = vUint("tipCount")
	vAssume(f.tip.count <= 1<<40) // the frame counter wraps only after 2^64 draws (outside the claim)
	return f
}

func vStat(maxw int) decor.Statistics {
	st := decor.Statistics{
		AvailableWidth: vInt("avail"),
		RequestedWidth: vInt("req"),
		Total:          vInt64("total"),
		Current:        vInt64("current"),
		Refill:         vInt64("refill"),
		Completed:      vBool("completed"),
		Aborted:        vBool("aborted"),
	}
	vAssume(st.AvailableWidth >= 0 && st.AvailableWidth <= maxw)
	return st
}

// C07 (bar filler): Fill terminates, never exceeds the width it may use, and fills it exactly when it draws a body.
func vhC07FillFwd()    { vC07Fill(false, false) }
func vhC07FillRev()    { vC07Fill(true, false) }
func vhC07FillFwdTip() { vC07Fill(false, true) }
func vhC07FillRevTip() { vC07Fill(true, true) }

func vC07Fill(rev, tipOnComplete bool) {
	vUnwind(vC07W + 3)
	f := vSymbolicBarFiller(rev, tipOnComplete)
	stat := vStat(vC07W)
	var buf bytes.Buffer
	err := f.Fill(&buf, stat)
	vAssert(err == nil, "C07.fill.noerror")
	w := vTextWidth(buf.String())
	allotted := internal.CheckRequestedWidth(stat.RequestedWidth, stat.AvailableWidth)
	vAssert(w <= stat.AvailableWidth, "C07.fill.fits-available")
	inner := allotted - f.components[iLbound].width - f.components[iRbound].width
	if inner < 0 {
		vAssert(w == 0, "C07.fill.nothing-when-brackets-dont-fit")
	} else {
		vAssert(w == allotted, "C07.fill.exact")
	}
	vCover("C07.fill.reach")
}

// Contract of internal.PercentageRound used by the row-width harnesses (assume-guarantee): exactly the facts
// the C08 kernel harness proves for every int64 total/current and width < 65536:
// integral result in [0,width], 0 when total<=0 or current<=0, width when current>=total>0.
var vPRCalls int

func vmPercentageRound(total, current int64, width uint) float64 {
	var r int64
	if vPRCalls == 0 {
		r = vInt64("pround0")
	} else if vPRCalls == 1 {
		r = vInt64("pround1")
	} else {
		r = vInt64("pround2")
	}
	vPRCalls++
	vAssume(r >= 0 && r <= int64(width))
	if total <= 0 || current <= 0 {
		vAssume(r == 0)
	} else if current >= total {
		vAssume(r == int64(width))
	}
	return float64(r)
}
