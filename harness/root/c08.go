package mpb

import (
	"bytes"

	"github.com/vbauerster/mpb/v8/internal"
)

const vC08W = 12

// C08 kernel: internal.PercentageRound over the full int64 range.
func vhC08Kernel() {
	total := vInt64("total")
	current := vInt64("current")
	width := vInt("width")
	vAssume(width >= 0)
	vAssume(width <= 65535)
	cells := int64(internal.PercentageRound(total, current, uint(width)))
	w := int64(width)
	vAssert(cells >= 0, "C08.kernel.nonneg")
	vAssert(cells <= w, "C08.kernel.atmost-width")
	if current == 0 || total <= 0 {
		vAssert(cells == 0, "C08.kernel.zero")
	}
	if total > 0 && current >= total {
		vAssert(cells == w, "C08.kernel.full")
	}
	if total > 0 && current >= 0 && current < total {
		// nearest cell: |cells*total - width*current| <= total/2 + slack of one float tie
		vAssert(vMulDiffWithin(cells, total, w, current, 1, total), "C08.kernel.proportional")
		// the float result is off by far less than 2^-20 of a cell on either branch (64-bit and 128-bit product):
		// the nearest cell up to that slack around a tie
		vAssert(vMulDiffWithin(cells, total, w, current, 2, total+total>>20+2), "C08.kernel.nearest-up-to-float-slack")
		if total <= 1<<32 {
			// below 2^32 the float error (3 ulp) cannot cross a rounding tie: exactly the nearest cell
			vAssert(vMulDiffWithin(cells, total, w, current, 2, total), "C08.kernel.nearest")
		}
	}
	vCover("C08.kernel.reach")
}

// C08 monotonicity of the kernel: a larger current never yields fewer cells (same total and width).
func vhC08Mono() {
	total := vInt64("total")
	c1 := vInt64("c1")
	c2 := vInt64("c2")
	width := vInt("width")
	vAssume(width >= 0 && width <= 65535)
	vAssume(c1 <= c2)
	// both products below 2^63 (one code path); beyond it only the proportional bound of the kernel harness is claimed
	vAssume(c2 <= 0 || width == 0 || c2 <= (1<<63-1)/int64(width))
	r1 := int64(internal.PercentageRound(total, c1, uint(width)))
	r2 := int64(internal.PercentageRound(total, c2, uint(width)))
	vAssert(r1 <= r2, "C08.mono")
	vCover("C08.mono.reach")
}

// C08 at the level of bFiller.Fill (default single-column style): the cells emitted per section.
// PercentageRound is replaced by its contract (vmPercentageRound: the facts the kernel harness proves);
// the sections are observed through the style's meta functions.
func vhC08Fill() {
	vUnwind(vC08W + 3)
	var wRefill, wFill, wTip, wPad int
	st := BarStyle().
		RefillerMeta(func(s string) string { wRefill += vTextWidth(s); return s }).
		FillerMeta(func(s string) string { wFill += vTextWidth(s); return s }).
		TipMeta(func(s string) string { wTip += vTextWidth(s); return s }).
		PaddingMeta(func(s string) string { wPad += vTextWidth(s); return s })
	// two tip frames of display width 0..2 each (an animated tip): the frame drawn is frames[count%2]
	st = st.Tip(vStyleText("tip0", 2), vStyleText("tip1", 2))
	tipOnComplete := vBool("tipOnComplete")
	if tipOnComplete {
		st = st.TipOnComplete()
	}
	if vBool("reverse") {
		st = st.Reverse()
	}
	f := st.Build()
	f.(*bFiller).tip.count = vUint("tipCount")
	vAssume(f.(*bFiller).tip.count <= 1<<40)
	stat := vStat(vC08W)
	stat.RequestedWidth = 0
	var buf bytes.Buffer
	err := f.Fill(&buf, stat)
	vAssert(err == nil, "C08.fill.noerror")
	inner := stat.AvailableWidth - 2
	if inner > 0 {
		cur := int(vInt64("pround0")) // cells the kernel returns for (total, current, inner)
		filled := wRefill + wFill + wTip
		// single-column filler runes: exact, except that a two-column tip drawn into a one-cell progress
		// sticks out by one cell ("to within one rune")
		want := cur
		if wTip > cur {
			want = wTip
		}
		vAssert(wTip <= 2 && (cur > 0 || wTip == 0), "C08.fill.tip-only-with-progress")
		vAssert(filled == want, "C08.fill.filled-cells-equal-kernel-result")
		vAssert(wPad == inner-filled, "C08.fill.rest-is-padding")
		vAssert(wRefill <= filled, "C08.fill.refill-within-filled")
		if stat.Refill == 0 {
			vAssert(wRefill == 0, "C08.fill.no-refill-segment")
		}
		if stat.Current <= 0 || stat.Total <= 0 {
			vAssert(filled == 0, "C08.fill.zero")
		}
		if stat.Total > 0 && stat.Current >= stat.Total {
			vAssert(filled == inner && wPad == 0, "C08.fill.full")
		}
		if stat.Completed && !tipOnComplete {
			vAssert(wTip == 0, "C08.fill.no-tip-when-complete")
		}
	}
	vCover("C08.fill.reach")
}

// C08 over consecutive frames: a filler is reused for every frame of its bar; what it draws for a frame depends
// on that frame's statistics only (in particular a frame whose progress rounds to zero cells shows none, whatever
// the previous frame showed). Second Fill on the same filler, independent statistics.
func vhC08FillTwice() {
	vUnwind(vC08W + 3)
	var wRefill, wFill, wTip, wPad int
	st := BarStyle().
		RefillerMeta(func(s string) string { wRefill += vTextWidth(s); return s }).
		FillerMeta(func(s string) string { wFill += vTextWidth(s); return s }).
		TipMeta(func(s string) string { wTip += vTextWidth(s); return s }).
		PaddingMeta(func(s string) string { wPad += vTextWidth(s); return s })
	if vBool("reverse") {
		st = st.Reverse()
	}
	f := st.Build()
	stat := vStat(vC08W)
	stat.RequestedWidth = 0
	vAssume(stat.AvailableWidth > 2)
	var buf bytes.Buffer
	err := f.Fill(&buf, stat)
	vAssert(err == nil, "C08.fill2.noerror")
	// second frame
	stat2 := stat
	stat2.Total, stat2.Current, stat2.Refill = vInt64("total2"), vInt64("current2"), 0
	stat2.Completed, stat2.Aborted = vBool("completed2"), vBool("aborted2")
	wRefill, wFill, wTip, wPad = 0, 0, 0, 0
	k := vPRCalls
	var buf2 bytes.Buffer
	err = f.Fill(&buf2, stat2)
	vAssert(err == nil, "C08.fill2.noerror-2")
	var cur int
	if k == 1 {
		cur = int(vInt64("pround1"))
	} else {
		cur = int(vInt64("pround2"))
	}
	inner := stat2.AvailableWidth - 2
	filled := wRefill + wFill + wTip
	vAssert(filled == cur, "C08.fill2.second-frame-shows-its-own-progress")
	vAssert(wRefill == 0, "C08.fill2.no-refill-segment-left-over")
	vAssert(wPad == inner-filled, "C08.fill2.rest-is-padding")
	vAssert(vTextWidth(buf2.String()) == stat2.AvailableWidth, "C08.fill2.row-width")
	vCover("C08.fill2.reach")
}
