package mpb

import "github.com/vbauerster/mpb/v8/internal"

// C08 kernel: internal.PercentageRound over the full int64 range.
func vhC08Kernel() {
	total := vInt64("total")
	current := vInt64("current")
	width := vInt("width")
	vAssume(width >= 0)
	vAssume(width <= 65535)
	cells := int64(internal.PercentageRound(total, current, uint(width)))
	w := int64(width)
	vAssert(cells >= 0, "C08.kernel.nonneg")
	vAssert(cells <= w, "C08.kernel.atmost-width")
	if current == 0 || total <= 0 {
		vAssert(cells == 0, "C08.kernel.zero")
	}
	if total > 0 && current >= total {
		vAssert(cells == w, "C08.kernel.full")
	}
	if total > 0 && current >= 0 && current < total {
		// nearest cell: |cells*total - width*current| <= total/2 + slack of one float tie
		d := cells*total - w*current
		vAssert(d <= total && -d <= total, "C08.kernel.proportional")
		if total <= 1<<32 {
			// below 2^32 the float error (3 ulp) cannot cross a rounding tie: exactly the nearest cell
			vAssert(2*d <= total && -2*d <= total, "C08.kernel.nearest")
		}
	}
	vCover("C08.kernel.reach")
}
