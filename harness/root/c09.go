package mpb

import "context"

// vBarFor builds a real Bar (real channels, real context) around state s without a container.
func vBarFor(s *bState) (*Bar, *Progress) {
	p := &Progress{}
	ctx, cancel := context.WithCancel(context.Background())
	b := &Bar{
		priority:     s.priority,
		frameCh:      make(chan *renderFrame, 1),
		operateState: make(chan func(*bState)),
		bsOk:         make(chan struct{}),
		container:    p,
		ctx:          ctx,
		cancel:       cancel,
	}
	return b, p
}

// vServe plays the bar goroutine for exactly n operations (the real Bar.serve dispatch: op(bs)).
func vServe(b *Bar, s *bState, n int, done chan struct{}) {
	for i := 0; i < n; i++ {
		op := <-b.operateState
		op(s)
	}
	close(done)
}

func vNondetBState() *bState {
	s := &bState{
		total:           vInt64("s.total"),
		current:         vInt64("s.current"),
		refill:          vInt64("s.refill"),
		aborted:         vBool("s.aborted"),
		triggerComplete: vBool("s.trigger"),
		rmOnComplete:    vBool("s.rm"),
		autoRefresh:     false,
	}
	return s
}

// C09: IncrInt64 from an arbitrary live state equals the reference rule.
func vhC09Incr() {
	s := vNondetBState()
	n := vInt64("n")
	pre := *s
	// documented precondition: current+n does not wrap
	sum := pre.current + n
	vAssume((n >= 0 && sum >= pre.current) || (n < 0 && sum < pre.current))
	b, _ := vBarFor(s)
	done := make(chan struct{})
	go vServe(b, s, 1, done)
	b.IncrInt64(n)
	<-done
	want := sum
	trig := pre.triggerComplete
	if trig && want >= pre.total {
		want = pre.total
	}
	vAssert(s.current == want, "C09.incr.current")
	vAssert(s.total == pre.total, "C09.incr.total")
	vAssert(s.triggerComplete == pre.triggerComplete, "C09.incr.trigger")
	vAssert(s.aborted == pre.aborted, "C09.incr.aborted")
	vCover("C09.incr.reach")
}
