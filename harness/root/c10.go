package mpb

// C10 (no update lost or reordered): two priority changes of one bar sent one after the other by the
// container goroutine are applied by the heap manager in that order, whatever the manager is doing meanwhile.
func vhC10FixOrder() {
	m := newHeapManager(1)
	go m.run()
	b := vBarFor(&bState{})
	m.push(b, false)
	m.fix(b, 7, false)
	m.fix(b, -1, false)
	ch := make(chan interface{}, 1)
	m.end(ch)
	got := (<-ch).([]*Bar)
	vAssert(len(got) == 1 && got[0] == b, "C10.fix.bar-in-heap")
	vAssert(b.priority == -1, "C10.fix.last-priority-change-wins")
	vCover("C10.fix.reach")
}

// C02/C01/C05/C16 at Progress.traverseBars (used by every bar's early-refresh helper), every schedule: the real
// traverseBars against the real heapManager.run holding three bars and a stand-in container goroutine that
// serves exactly the traversal request.  The callback stops the traversal at the stopAt-th bar and keeps saying
// "stop" should it be asked again (as tryEarlyRefresh does for every running bar).  Whatever the manager's
// select picks once the drop channel is closed: no panic, nobody stranded, no bar lost, the manager goes on
// serving requests.
func vhC02Traverse() {
	m := newHeapManager(4)
	go m.run()
	b0, b1, b2 := vBarFor(&bState{}), vBarFor(&bState{}), vBarFor(&bState{})
	b1.priority, b2.priority = 1, 2
	m.push(b0, false)
	m.push(b1, false)
	m.push(b2, false)
	p := &Progress{operateState: make(chan func(*pState)), done: make(chan struct{})}
	ps := &pState{hm: m}
	go func() {
		fn := <-p.operateState
		fn(ps)
	}()
	stopAt := vInt("stopAt")
	vAssume(stopAt >= 1 && stopAt <= 4)
	visited := 0
	p.traverseBars(func(b *Bar) bool {
		visited++
		return visited < stopAt
	})
	vAssert(visited >= 1 && visited <= 3, "traverse.each-bar-visited-at-most-once")
	ch := make(chan interface{}, 1)
	m.end(ch)
	got := (<-ch).([]*Bar)
	vAssert(len(got) == 3, "traverse.no-bar-lost")
	vCover("traverse.reach")
}
