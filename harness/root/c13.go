package mpb

import (
	"bytes"
	"io"
)

// C13/C10/C01 at Progress.Write, every schedule: the real Write against a stand-in for the container goroutine
// that serves exactly ONE closure from interceptIO. One Write is one message (a second one finds nobody: the
// text of one call cannot be split or interleaved), the bytes have been consumed when Write returns (the
// caller may reuse its buffer), the result is what the writer reported, and a container that finishes while
// the closure is being served strands neither side. Whole schedule symbolic.
func vhC13WriteProtocol() {
	done := make(chan struct{})
	p := &Progress{
		interceptIO: make(chan func(io.Writer)),
		done:        done,
	}
	var buf bytes.Buffer
	ran := 0
	served := make(chan struct{})
	closeDone := vBool("containerFinishesMeanwhile")
	go func() {
		select {
		case fn := <-p.interceptIO:
			ran = 1
			if closeDone {
				close(done) // the container is told to finish while it serves the request
			}
			fn(&buf)
			ran = 2
		case <-p.done:
		}
		close(served)
	}()
	payload := vBytes("payload")
	vAssume(vTextLen(string(payload)) >= 1 && vTextLen(string(payload)) <= 1<<20)
	n, err := p.Write(payload)
	if err == nil {
		vAssert(n == len(payload), "C13.write.reports-every-byte")
		out := buf.String()
		vAssert(vTextLen(out) == len(payload) && vTextID(out) == vTextID(string(payload)), "C13.write.exactly-the-bytes-once")
	} else {
		vAssert(n == 0 && err == ErrDone, "C13.write.refused-is-ErrDone")
		vAssert(ran == 0 || buf.Len() == 0, "C13.write.refused-emits-nothing")
	}
	<-served // the container goroutine is never left blocked on the caller
	vCover("C13.write.reach")
}
