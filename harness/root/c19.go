package mpb

import (
	"io"
)

// underlying readers of the four dynamic shapes
type vReader struct {
	n      int
	n64    int64
	err    error
	reads  int
	wtos   int
	closes int
	gotBuf int // identity of the buffer handed to Read
}

func (r *vReader) read(p []byte) (int, error) {
	r.reads++
	r.gotBuf = vTextID(string(p))
	return r.n, r.err
}

type vPlainReader struct{ *vReader }

func (r vPlainReader) Read(p []byte) (int, error) { return r.read(p) }

type vReadCloser struct{ *vReader }

func (r vReadCloser) Read(p []byte) (int, error) { return r.read(p) }
func (r vReadCloser) Close() error               { r.closes++; return r.err }

type vReaderWT struct{ *vReader }

func (r vReaderWT) Read(p []byte) (int, error) { return r.read(p) }
func (r vReaderWT) WriteTo(w io.Writer) (int64, error) {
	r.wtos++
	return r.n64, r.err
}

type vReadCloserWT struct{ *vReader }

func (r vReadCloserWT) Read(p []byte) (int, error) { return r.read(p) }
func (r vReadCloserWT) Close() error               { r.closes++; return r.err }
func (r vReadCloserWT) WriteTo(w io.Writer) (int64, error) {
	r.wtos++
	return r.n64, r.err
}

func vProxyState() (*bState, *vEwma, bool) {
	s := vLiveState()
	e := &vEwma{}
	hasEwma := vBool("hasEwma")
	if hasEwma {
		s.ewmaDecorators = append(s.ewmaDecorators, e)
	}
	return s, e, hasEwma
}

// C19 reader side: one Read / WriteTo / Close through the proxy from an arbitrary bar state.
func vhC19Reader() {
	s, e, hasEwma := vProxyState()
	pre := vSnap(s)
	u := &vReader{n: vInt("n"), n64: vInt64("n64")}
	if vBool("fail") {
		u.err = vErrIO
	}
	shape := vInt("shape")
	vAssume(shape >= 0 && shape <= 3)
	var r io.Reader
	switch shape {
	case 0:
		r = vPlainReader{u}
	case 1:
		r = vReadCloser{u}
	case 2:
		r = vReaderWT{u}
	default:
		r = vReadCloserWT{u}
	}
	b := vBarFor(s)
	pr := newProxyReader(r, b, hasEwma)
	_, isWT := pr.(io.WriterTo)
	vAssert(isWT == (shape >= 2), "C19.reader.fast-path-offered-iff-underlying-has-it")
	op := vInt("op")
	vAssume(op >= 0 && op <= 2)
	switch op {
	case 0: // Read
		buf := vBytes("buf")
		vAssume(u.n >= 0 && u.n <= len(buf))
		want := pre
		want.current = vNoWrapAdd(pre.current, int64(u.n))
		want = vClamp(want)
		var gn int
		var gerr error
		vRunOp(b, s, func() { gn, gerr = pr.Read(buf) })
		vAssert(gn == u.n && gerr == u.err, "C19.reader.read-result-unchanged")
		vAssert(u.reads == 1 && u.gotBuf == vTextID(string(buf)), "C19.reader.read-forwarded-once-same-buffer")
		vAssert(s.current == want.current, "C19.reader.read-advances-bar-by-n")
		if hasEwma {
			vAssert(e.calls == 1 && e.lastN == int64(u.n) && e.lastD >= 0, "C19.reader.read-one-ewma-sample")
		} else {
			vAssert(e.calls == 0, "C19.reader.read-no-ewma-sample")
		}
	case 1: // WriteTo
		vAssume(shape >= 2 && u.n64 >= 0)
		want := pre
		want.current = vNoWrapAdd(pre.current, u.n64)
		want = vClamp(want)
		var gn int64
		var gerr error
		vRunOp(b, s, func() { gn, gerr = pr.(io.WriterTo).WriteTo(io.Discard) })
		vAssert(gn == u.n64 && gerr == u.err, "C19.reader.writeto-result-unchanged")
		vAssert(u.wtos == 1 && u.reads == 0, "C19.reader.writeto-forwarded-once")
		vAssert(s.current == want.current, "C19.reader.writeto-advances-bar-by-n")
		if hasEwma {
			vAssert(e.calls == 1 && e.lastN == u.n64 && e.lastD >= 0, "C19.reader.writeto-one-ewma-sample")
		}
	default: // Close
		gerr := pr.Close()
		if shape == 1 || shape == 3 {
			vAssert(u.closes == 1 && gerr == u.err, "C19.reader.close-forwarded")
		} else {
			vAssert(gerr == nil, "C19.reader.close-of-plain-reader-is-nil")
		}
		vAssert(s.current == pre.current, "C19.reader.close-does-not-move-bar")
	}
	vCover("C19.reader.reach")
}

// underlying writers
type vWriter struct {
	n      int
	n64    int64
	err    error
	writes int
	rfs    int
	closes int
	gotBuf int
}

func (w *vWriter) write(p []byte) (int, error) {
	w.writes++
	w.gotBuf = vTextID(string(p))
	return w.n, w.err
}

type vPlainWriter struct{ *vWriter }

func (w vPlainWriter) Write(p []byte) (int, error) { return w.write(p) }

type vWriteCloser struct{ *vWriter }

func (w vWriteCloser) Write(p []byte) (int, error) { return w.write(p) }
func (w vWriteCloser) Close() error                { w.closes++; return w.err }

type vWriterRF struct{ *vWriter }

func (w vWriterRF) Write(p []byte) (int, error) { return w.write(p) }
func (w vWriterRF) ReadFrom(r io.Reader) (int64, error) {
	w.rfs++
	return w.n64, w.err
}

type vWriteCloserRF struct{ *vWriter }

func (w vWriteCloserRF) Write(p []byte) (int, error) { return w.write(p) }
func (w vWriteCloserRF) Close() error                { w.closes++; return w.err }
func (w vWriteCloserRF) ReadFrom(r io.Reader) (int64, error) {
	w.rfs++
	return w.n64, w.err
}

func vhC19Writer() {
	s, e, hasEwma := vProxyState()
	pre := vSnap(s)
	u := &vWriter{n: vInt("n"), n64: vInt64("n64")}
	if vBool("fail") {
		u.err = vErrIO
	}
	shape := vInt("shape")
	vAssume(shape >= 0 && shape <= 3)
	var w io.Writer
	switch shape {
	case 0:
		w = vPlainWriter{u}
	case 1:
		w = vWriteCloser{u}
	case 2:
		w = vWriterRF{u}
	default:
		w = vWriteCloserRF{u}
	}
	b := vBarFor(s)
	pw := newProxyWriter(w, b, hasEwma)
	_, isRF := pw.(io.ReaderFrom)
	vAssert(isRF == (shape >= 2), "C19.writer.fast-path-offered-iff-underlying-has-it")
	op := vInt("op")
	vAssume(op >= 0 && op <= 2)
	switch op {
	case 0:
		buf := vBytes("buf")
		vAssume(u.n >= 0 && u.n <= len(buf))
		want := pre
		want.current = vNoWrapAdd(pre.current, int64(u.n))
		want = vClamp(want)
		var gn int
		var gerr error
		vRunOp(b, s, func() { gn, gerr = pw.Write(buf) })
		vAssert(gn == u.n && gerr == u.err, "C19.writer.write-result-unchanged")
		vAssert(u.writes == 1 && u.gotBuf == vTextID(string(buf)), "C19.writer.write-forwarded-once-same-buffer")
		vAssert(s.current == want.current, "C19.writer.write-advances-bar-by-n")
		if hasEwma {
			vAssert(e.calls == 1 && e.lastN == int64(u.n) && e.lastD >= 0, "C19.writer.write-one-ewma-sample")
		} else {
			vAssert(e.calls == 0, "C19.writer.write-no-ewma-sample")
		}
	case 1:
		vAssume(shape >= 2 && u.n64 >= 0)
		want := pre
		want.current = vNoWrapAdd(pre.current, u.n64)
		want = vClamp(want)
		var gn int64
		var gerr error
		vRunOp(b, s, func() { gn, gerr = pw.(io.ReaderFrom).ReadFrom(nil) })
		vAssert(gn == u.n64 && gerr == u.err, "C19.writer.readfrom-result-unchanged")
		vAssert(u.rfs == 1 && u.writes == 0, "C19.writer.readfrom-forwarded-once")
		vAssert(s.current == want.current, "C19.writer.readfrom-advances-bar-by-n")
		if hasEwma {
			vAssert(e.calls == 1 && e.lastN == u.n64 && e.lastD >= 0, "C19.writer.readfrom-one-ewma-sample")
		}
	default:
		gerr := pw.Close()
		if shape == 1 || shape == 3 {
			vAssert(u.closes == 1 && gerr == u.err, "C19.writer.close-forwarded")
		} else {
			vAssert(gerr == nil, "C19.writer.close-of-plain-writer-is-nil")
		}
		vAssert(s.current == pre.current, "C19.writer.close-does-not-move-bar")
	}
	vCover("C19.writer.reach")
}
