package mpb

import (
	"time"

	"github.com/vbauerster/mpb/v8/decor"
)

// A moving-average decorator that records the samples it is fed.
type vEwma struct {
	decor.WC
	calls int
	lastN int64
	lastD time.Duration
}

func (d *vEwma) Decor(decor.Statistics) (string, int) { return "", 0 }
func (d *vEwma) EwmaUpdate(n int64, dur time.Duration) {
	d.calls++
	d.lastN = n
	d.lastD = dur
}

// C20 sample delivery: every Ewma* call hands exactly one sample (progress made, duration) to every
// moving-average decorator, however deeply it is wrapped.
func vhC20SampleDelivery() {
	e := &vEwma{}
	e2 := &vEwma{}
	depth := vInt("depth")
	vAssume(depth >= 0 && depth <= 3)
	ps := pState{}
	var opt BarOption
	if vBool("prepend") {
		opt = PrependDecorators(vWrap(e, depth), e2)
	} else {
		opt = AppendDecorators(e2, vWrap(e, depth))
	}
	bs := ps.makeBarState(vInt64("total"), nil, opt)
	vAssert(len(bs.ewmaDecorators) == 2, "C20.delivery.collected-through-wrappers")
	bs.current = vInt64("s.current")
	pre := bs.current
	b := vBarFor(bs)
	d := time.Duration(vInt64("dur"))
	if vBool("set") {
		v := vInt64("v")
		vAssume(v >= 0)
		vRunOp(b, bs, func() { b.EwmaSetCurrent(v, d) })
		vAssert(e.calls == 1 && e2.calls == 1, "C20.delivery.setcurrent-one-sample")
		vAssert(e2.lastN == v-pre && e2.lastD == d, "C20.delivery.setcurrent-sample-values-second-decorator")
		vAssert(e.lastN == v-pre && e.lastD == d, "C20.delivery.setcurrent-sample-values")
	} else {
		n := vInt64("n")
		vNoWrapAdd(pre, n)
		vRunOp(b, bs, func() { b.EwmaIncrInt64(n, d) })
		vAssert(e.calls == 1 && e2.calls == 1, "C20.delivery.incr-one-sample")
		vAssert(e2.lastN == n && e2.lastD == d, "C20.delivery.incr-sample-values-second-decorator")
		vAssert(e.lastN == n && e.lastD == d, "C20.delivery.incr-sample-values")
	}
	vCover("C20.delivery.reach")
}
