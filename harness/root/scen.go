package mpb

import (
	"context"
	"io"
	"time"

	"github.com/vbauerster/mpb/v8/decor"
)

// Tier-B scenarios: closed programs over the real container, real bars and every library goroutine.
// Bars draw themselves with marker fillers: bar i writes a row of display width 10^i (BarFillerTrim, no
// decorators), so the display width of a frame is sum_i rows_i*10^i: it encodes how often each bar appears.

const vMaxFrames = 12

type vFrameRec struct {
	n      int
	w      [vMaxFrames]int
	nl     [vMaxFrames]int
	cuu    [vMaxFrames]int
	seq    [vMaxFrames]int // order fingerprint of the marked rows of the frame (see vMarkText)
	closed bool            // set by the harness when Wait has returned
	late   int             // writes after Wait returned
	fail   int             // fail the k-th write (1-based), 0 = never, < 0 = every write
	tick   chan struct{}   // when set: one token per write (never blocks), see vEnv.cycle
}

func (r *vFrameRec) Write(p []byte) (int, error) {
	if r.closed {
		r.late++
	}
	s := string(p)
	if r.n < vMaxFrames {
		r.w[r.n] = vTextWidth(s)
		r.nl[r.n] = vTextNL(s)
		r.cuu[r.n] = vTextCUU(s)
		r.seq[r.n] = vTextSeq(s)
	}
	r.n++
	if r.tick != nil {
		select {
		case r.tick <- struct{}{}:
		default:
		}
	}
	if r.fail == r.n || r.fail < 0 {
		return 0, vErrIO
	}
	return len(p), nil
}

type vMark struct {
	id           int
	width        int
	fills        int
	lastCur      int64
	lastDone     bool
	lastAb       bool
	digit        int // when > 0 the row carries this order mark (vMarkText)
	nl           int // newlines written after the row (extender fillers write whole lines)
	failAt       int // return an error from the k-th Fill (1-based), 0 = never
	rec          *vFrameRec
	framesAtFail int // frames written when the failing Fill was called (-1: has not failed)
}

func (m *vMark) Fill(w io.Writer, st decor.Statistics) error {
	m.fills++
	m.lastCur, m.lastDone, m.lastAb = st.Current, st.Completed, st.Aborted
	if m.failAt == m.fills {
		if m.rec != nil {
			m.framesAtFail = m.rec.n
		}
		return vErrIO
	}
	if m.digit > 0 {
		_, err := io.WriteString(w, vMarkText(m.width, 0, m.digit))
		return err
	}
	_, err := io.WriteString(w, vMakeText(m.width, m.nl))
	return err
}

func vNewMark(id int) *vMark {
	w := 1
	for i := 0; i < id; i++ {
		w *= 10
	}
	return &vMark{id: id, width: w, framesAtFail: -1}
}

type vMode int

const (
	vPlain vMode = iota
	vAuto
	vManual
)

type vEnv struct {
	rec     *vFrameRec
	p       *Progress
	refresh chan interface{}
	cancel  context.CancelFunc
	notify  chan interface{}
	left    int // number of bars in the list the shutdown notifier received (set by vFinish)
}

func vNewContainer(mode vMode, q int, extra ...ContainerOption) *vEnv {
	e := &vEnv{rec: &vFrameRec{}, notify: make(chan interface{}, 1)}
	opts := []ContainerOption{WithOutput(e.rec), WithWidth(1000), WithShutdownNotifier(e.notify)}
	if q >= 0 {
		opts = append(opts, WithQueueLen(q))
	}
	switch mode {
	case vAuto:
		// the rate matters only natively (the engine's ticker model has no durations): a fast ticker gives
		// replays a chance to hit windows between a tick and the shutdown
		opts = append(opts, WithAutoRefresh(), WithRefreshRate(200*time.Microsecond))
	case vManual:
		e.refresh = make(chan interface{})
		opts = append(opts, WithManualRefresh(e.refresh))
	}
	opts = append(opts, extra...)
	ctx, cancel := context.WithCancel(context.Background())
	e.cancel = cancel
	e.p = NewWithContext(ctx, opts...)
	return e
}

// cycle (manual refresh only): request one render cycle and wait until its frame has been written.
// Only for points where the cycle is certain to write a frame; call vTicks first.
func (e *vEnv) vTicks() { e.rec.tick = make(chan struct{}, 64) }
func (e *vEnv) cycle() {
	e.refresh <- nil
	<-e.rec.tick
}

// vFinish: Wait, then the checks every scenario shares (late calls, notifier, output after Wait).
func (e *vEnv) vFinish(id string, bars ...*Bar) {
	e.p.Wait()
	e.rec.closed = true
	for _, b := range bars {
		vAssert(!b.IsRunning(), id+".bar-stopped")
		vAssert(b.Completed() != b.Aborted(), id+".exactly-one-terminal-flag")
	}
	nb, err := e.p.Add(1, nil)
	vAssert(nb == nil && err == ErrDone, id+".late-add-is-ErrDone")
	for i := 0; i < 2; i++ {
		n, werr := e.p.Write([]byte("late"))
		vAssert(n == 0 && werr == ErrDone, id+".late-write-is-ErrDone")
	}
	if len(bars) > 0 {
		bars[0].IncrBy(1)
		bars[0].SetTotal(5, true)
		bars[0].Abort(true)
	}
	if l, ok := (<-e.notify).([]*Bar); ok {
		e.left = len(l)
	} else {
		e.left = -1
	}
	vAssert(e.rec.late == 0, id+".nothing-written-after-Wait")
	vCover(id + ".waited")
}

// ---- S1: one bar, complete, Wait (all three modes)
func vS1(mode vMode, q int) {
	e := vNewContainer(mode, q)
	m := vNewMark(0)
	b, err := e.p.Add(2, m, BarFillerTrim())
	vAssert(err == nil, "S1.add-ok")
	if vParam("overshoot") != 0 {
		// the last chunk is larger than what is left: current is capped at total
		b.EwmaIncrInt64(3, time.Millisecond)
	} else {
		b.IncrBy(2)
	}
	if mode == vManual {
		e.refresh <- nil
		e.refresh <- nil
	}
	e.vFinish("S1", b)
	vAssert(b.Completed() && b.Current() == 2, "S1.completed-at-total")
	if mode == vAuto {
		last := e.rec.n - 1
		vAssert(e.rec.n >= 1, "S1.some-frame")
		vAssert(e.rec.w[last] == 1 && e.rec.nl[last] == 1, "S1.last-frame-shows-the-bar-once")
		vAssert(m.lastDone && m.lastCur == 2, "S1.last-draw-is-final-state")
	}
}

func vsS1Plain()  { vS1(vPlain, -1) }
func vsS1Auto()   { vS1(vAuto, -1) }
func vsS1Manual() { vS1(vManual, -1) }
func vsS1AutoQ0() { vS1(vAuto, 0) }
func vsS1x()      { vS1(vMode(vParam("mode")), vParam("queueLen")) }

// ---- S2: two bars with width-synchronised decorators (C01, C12, C03)

type vSyncDecor struct {
	decor.WC
	text  string
	calls int
	last  int
}

func (d *vSyncDecor) Decor(decor.Statistics) (string, int) {
	s, w := d.Format(d.text)
	d.calls++
	d.last = w
	return s, w
}

func vNewSync(text string) *vSyncDecor {
	d := &vSyncDecor{WC: decor.WC{C: decor.DSyncWidth}, text: text}
	d.Init()
	return d
}

func vS2(mode vMode, q int) {
	e := vNewContainer(mode, q)
	d0, d1 := vNewSync(vMakeText(1, 0)), vNewSync(vMakeText(3, 0))
	m0, m1 := vNewMark(2), vNewMark(3)
	b0, _ := e.p.Add(2, m0, BarFillerTrim(), PrependDecorators(d0))
	b1, _ := e.p.Add(2, m1, BarFillerTrim(), PrependDecorators(d1))
	go b0.IncrBy(2)
	b1.IncrBy(2)
	if mode == vManual {
		e.refresh <- nil
		e.refresh <- nil
	}
	e.vFinish("S2", b0, b1)
	vAssert(b0.Completed() && b1.Completed(), "S2.both-completed")
	if mode != vPlain {
		vAssert(e.rec.n >= 1, "S2.some-frame")
		// every frame in which both bars were drawn gave both decorators the common width 3
		vAssert(d0.calls == 0 || d0.last == 3, "S2.column-width-is-the-maximum")
		vAssert(d1.calls == 0 || d1.last == 3, "S2.column-width-is-the-maximum-1")
	}
	if mode == vAuto {
		last := e.rec.n - 1
		vAssert(e.rec.w[last] == 100+3+1000+3 && e.rec.nl[last] == 2, "S2.last-frame-shows-both-bars-once")
		vAssert(m0.lastDone && m1.lastDone, "S2.last-draws-are-final")
	}
}

func vsS2x()        { vS2(vMode(vParam("mode")), vParam("queueLen")) }
func vsS2Auto()     { vS2(vAuto, -1) }
func vsS2Manual()   { vS2(vManual, -1) }
func vsS2AutoQ0()   { vS2(vAuto, 0) }
func vsS2AutoQ1()   { vS2(vAuto, 1) }
func vsS2ManualQ0() { vS2(vManual, 0) }

// Scenario parameters are concrete per run (vParam): the driver runs one check per combination.
func vModeParam() vMode { return vMode(vParam("mode")) }

// ---- S3: one bar completes, one is aborted (drop or not), bar removal on complete (C03, C05, C11, C14)
func vsS3() {
	mode := vModeParam()
	e := vNewContainer(mode, -1)
	drop := vParam("drop") != 0
	rm := vParam("rm") != 0
	m0, m1 := vNewMark(0), vNewMark(1)
	opts0 := []BarOption{BarFillerTrim()}
	if rm {
		opts0 = append(opts0, BarRemoveOnComplete())
	}
	b0, _ := e.p.Add(2, m0, opts0...)
	b1, _ := e.p.Add(5, m1, BarFillerTrim())
	b0.IncrBy(2)
	if vParam("lateAbort") != 0 {
		// Abort on a bar that has already completed does nothing (in particular it keeps its removal setting)
		b0.Abort(!rm)
	}
	b1.IncrBy(1)
	b1.Abort(drop)
	if mode == vManual {
		e.refresh <- nil
		e.refresh <- nil
		e.refresh <- nil
	}
	e.vFinish("S3", b0, b1)
	vAssert(b0.Completed() && !b0.Aborted(), "S3.first-bar-completed")
	vAssert(b1.Aborted() && !b1.Completed() && b1.Current() == 1, "S3.second-bar-aborted")
	if mode == vAuto {
		last := e.rec.n - 1
		want, lines := 0, 0
		if !rm {
			want, lines = want+1, lines+1
		}
		if !drop {
			want, lines = want+10, lines+1
		}
		vAssert(e.rec.n >= 1 && e.rec.w[last] == want && e.rec.nl[last] == lines, "S3.last-frame-has-exactly-the-bars-that-stay")
		vAssert(m0.lastDone && m1.lastAb, "S3.last-draws-show-final-states")
	}
}

// ---- S4: cancellation / Shutdown at a chosen point of the client program (C14)

type vShutDecor struct {
	decor.WC
	notified int
}

func (d *vShutDecor) Decor(decor.Statistics) (string, int) { return "", 0 }
func (d *vShutDecor) OnShutdown()                          { d.notified++ }

// a shutdown listener that is also a moving-average decorator (both roles must be served)
type vShutEwmaDecor struct {
	vShutDecor
	samples int
}

func (d *vShutEwmaDecor) EwmaUpdate(int64, time.Duration) { d.samples++ }

func vsS4() {
	mode := vModeParam()
	e := vNewContainer(mode, -1)
	l0, l1 := &vShutEwmaDecor{}, &vShutDecor{}
	l0.Init()
	l1.Init()
	depth := vParam("wrapDepth")
	at := vParam("cancelAt")
	useShutdown := vParam("useShutdown") != 0
	stop := func() {
		if useShutdown {
			go e.p.Shutdown()
		} else {
			e.cancel()
		}
	}
	if at == 0 {
		stop()
	}
	b0, err0 := e.p.Add(3, vNewMark(0), BarFillerTrim(), AppendDecorators(vWrap(l0, depth)))
	if at == 1 {
		stop()
	}
	b1, err1 := e.p.Add(3, vNewMark(1), BarFillerTrim(), PrependDecorators(l1))
	if b0 != nil {
		b0.IncrBy(3)
	}
	if at == 2 {
		stop()
	}
	if b1 != nil {
		b1.IncrBy(1)
	}
	if mode == vManual {
		// bar 1 never finishes on its own: it has stopped exactly when the container was cancelled
		select {
		case e.refresh <- nil:
		case <-vBarDone(b1):
		}
	}
	if at == 3 {
		if mode == vManual && vParam("closeRefresh") != 0 {
			close(e.refresh) // the client is done refreshing; cancellation must still end the container
		}
		stop()
	}
	e.p.Wait()
	e.rec.closed = true
	if err0 == nil {
		vAssert(!b0.IsRunning() && b0.Completed() != b0.Aborted(), "S4.bar0-stopped-with-one-terminal-flag")
		vAssert(l0.notified == 1, "S4.wrapped-listener-notified-exactly-once")
	} else {
		vAssert(err0 == ErrDone && l0.notified == 0, "S4.rejected-add-notifies-nobody")
	}
	if err1 == nil {
		vAssert(!b1.IsRunning() && b1.Aborted() && !b1.Completed(), "S4.unfinished-bar-reported-aborted")
		vAssert(l1.notified == 1, "S4.listener-notified-exactly-once")
	}
	got := (<-e.notify).([]*Bar)
	vAssert(len(got) <= 2, "S4.notifier-lists-at-most-the-added-bars")
	vAssert(e.rec.late == 0, "S4.nothing-written-after-Wait")
	vCover("S4.waited")
}

// ---- S5: a render error (filler, output writer) shuts the container down cleanly (C15)
func vsS5() {
	mode := vModeParam()
	sync := vParam("sync") != 0
	dbg := &vFrameRec{}
	e := vNewContainer(mode, -1, WithDebugOutput(dbg))
	m0, m1 := vNewMark(0), vNewMark(1)
	m0.rec, m1.rec = e.rec, e.rec
	which := vParam("failingBar")
	k := vParam("failAtFill")
	switch which {
	case 0:
		m0.failAt = k
	case 1:
		m1.failAt = k
	case 2:
		e.rec.fail = k // the output writer fails instead
	}
	opts0 := []BarOption{BarFillerTrim()}
	mx := &vMark{width: 100, nl: 1, framesAtFail: -1, rec: e.rec}
	if which == 3 {
		// bar 0 has an extender (one extra line per frame) whose k-th call fails
		mx.failAt = k
		opts0 = append(opts0, BarExtender(mx, false))
	}
	opts1 := []BarOption{BarFillerTrim()}
	if sync {
		opts0 = append(opts0, PrependDecorators(vNewSync(vMakeText(1, 0))))
		opts1 = append(opts1, PrependDecorators(vNewSync(vMakeText(2, 0))))
	}
	b0, _ := e.p.Add(4, m0, opts0...)
	b1, _ := e.p.Add(4, m1, opts1...) // may already be refused if the error struck first
	if b0 != nil {
		b0.IncrBy(1)
	}
	if b1 != nil {
		b1.IncrBy(1)
	}
	if mode == vManual {
		// the bars never finish on their own: bar 0 has stopped exactly when the render error cancelled everything
		stopped := vBarDone(b0)
		for i := 0; i < 3; i++ {
			select {
			case e.refresh <- nil:
			case <-stopped:
			}
		}
		e.cancel()
	}
	e.p.Wait()
	e.rec.closed = true
	vAssert((b0 == nil || !b0.IsRunning()) && (b1 == nil || !b1.IsRunning()), "S5.all-bars-cancelled")
	failed := m0.failAt > 0 && m0.fills >= m0.failAt || m1.failAt > 0 && m1.fills >= m1.failAt || (e.rec.fail > 0 && e.rec.n >= e.rec.fail) || mx.failAt > 0 && mx.fills >= mx.failAt
	if failed {
		vAssert(dbg.n == 1, "S5.error-reported-to-debug-output-exactly-once")
	} else {
		vAssert(dbg.n == 0, "S5.no-error-no-report")
	}
	if m0.framesAtFail >= 0 {
		vAssert(e.rec.n == m0.framesAtFail, "S5.no-frame-in-or-after-the-failing-cycle")
	}
	if m1.framesAtFail >= 0 {
		vAssert(e.rec.n == m1.framesAtFail, "S5.no-frame-in-or-after-the-failing-cycle")
	}
	if mx.framesAtFail >= 0 {
		vAssert(e.rec.n == mx.framesAtFail, "S5.no-frame-in-or-after-the-failing-cycle")
	}
	if e.rec.fail > 0 && e.rec.n >= e.rec.fail {
		vAssert(e.rec.n == e.rec.fail, "S5.no-frame-after-the-failing-write")
	}
	got, _ := (<-e.notify).([]*Bar)
	want := 0
	if b0 != nil {
		want++
	}
	if b1 != nil {
		want++
	}
	if m0.framesAtFail >= 0 || mx.framesAtFail >= 0 {
		want-- // the bar whose frame carried the error leaves the container
	}
	if m1.framesAtFail >= 0 {
		want--
	}
	vAssert(len(got) == want, "S5.notifier-lists-every-bar-still-in-the-container")
	vAssert(e.rec.late == 0, "S5.nothing-written-after-Wait")
	vCover("S5.waited")
}

// ---- S6: a bar queued after another (C17)
func vsS6() {
	mode := vModeParam()
	pop := vParam("pop") != 0
	var extra []ContainerOption
	if pop {
		extra = append(extra, PopCompletedMode())
	}
	q := -1
	if vParam("queueLen0") != 0 {
		q = 0 // every push finds the request queue full
	}
	dup := vParam("dupID") != 0
	e := vNewContainer(mode, q, extra...)
	when := vParam("successorAfterPredecessorFinished")
	if when == 2 && mode != vManual {
		when = 0 // "between completion and the last frames" is only a definite point under manual refresh
	}
	late := when == 1
	early := when == 0
	two := vParam("twoSuccessors") != 0
	m0, m1, m2, m3 := vNewMark(0), vNewMark(1), vNewMark(2), vNewMark(3)
	syncd := vParam("sync") != 0
	withSync := func(opts []BarOption, w int) []BarOption {
		if syncd {
			opts = append(opts, PrependDecorators(vNewSync(vMakeText(w, 0))))
		}
		return opts
	}
	optsOther := withSync([]BarOption{BarFillerTrim()}, 1)
	optsPred := withSync([]BarOption{BarFillerTrim()}, 2)
	if dup {
		// bar ids need not be unique: an unrelated bar carries the predecessor's id and finishes first
		optsOther = append(optsOther, BarID(5))
		optsPred = append(optsPred, BarID(5))
	}
	other, _ := e.p.Add(2, m3, optsOther...)
	if vParam("rmPred") != 0 {
		optsPred = append(optsPred, BarRemoveOnComplete())
	}
	pred, _ := e.p.Add(2, m0, optsPred...)
	var succ, succ2 *Bar
	if early {
		succ, _ = e.p.Add(2, m1, withSync([]BarOption{BarFillerTrim(), BarQueueAfter(pred)}, 3)...)
		if two {
			succ2, _ = e.p.Add(2, m2, BarFillerTrim(), BarQueueAfter(pred))
		}
	}
	if dup && early {
		other.IncrBy(2)
		if mode == vManual {
			e.refresh <- nil
			e.refresh <- nil
			e.refresh <- nil
		} else {
			other.Wait()
		}
		vAssert(m1.fills == 0, "S6.successor-not-displayed-while-its-own-predecessor-runs")
	}
	pred.IncrBy(2)
	if when == 2 {
		// the predecessor has completed but its last frames have not been drawn yet
		late = false
		succ, _ = e.p.Add(2, m1, withSync([]BarOption{BarFillerTrim(), BarQueueAfter(pred)}, 3)...)
	}
	if mode == vManual {
		e.refresh <- nil
		e.refresh <- nil
		e.refresh <- nil
	}
	if late {
		pred.Wait()
		succ, _ = e.p.Add(2, m1, BarFillerTrim(), BarQueueAfter(pred))
	}
	succ.IncrBy(2)
	if succ2 != nil {
		succ2.IncrBy(2)
	}
	other.IncrBy(2)
	if mode == vManual {
		e.refresh <- nil
		e.refresh <- nil
		e.refresh <- nil
	}
	id := "S6"
	if late {
		id = "S6.late-successor"
	} else if two {
		id = "S6.two-successors"
	}
	e.vFinish(id, pred, succ, other)
	vAssert(succ.Completed(), id+".successor-completed")
	if mode != vPlain {
		vAssert(m1.fills >= 1, id+".successor-was-displayed")
		// the successor is never drawn before the predecessor's last frame: it is drawn fewer times
		vAssert(m0.fills >= 1, id+".predecessor-was-displayed")
	}
	if mode != vPlain && !pop && !syncd {
		// the successor takes the predecessor's place: the last frame shows the successor(s) and the other bar
		last := e.rec.n - 1
		want := 10 + 1000
		lines := 2
		if succ2 != nil {
			want, lines = want+100, lines+1
		}
		vAssert(e.rec.w[last] == want && e.rec.nl[last] == lines, id+".last-frame-shows-successor-and-other-bar")
	}
}

// ---- S7: pop-completed mode (C18): every finished bar stays on screen exactly once
func vsS7() {
	mode := vModeParam()
	e := vNewContainer(mode, -1, PopCompletedMode())
	noPop := vParam("noPop") != 0
	m0, m1 := vNewMark(0), vNewMark(1)
	opts0 := []BarOption{BarFillerTrim()}
	if noPop {
		opts0 = append(opts0, BarNoPop())
	}
	b0, _ := e.p.Add(2, m0, opts0...)
	b1, _ := e.p.Add(2, m1, BarFillerTrim())
	b0.IncrBy(2)
	if mode == vManual {
		for i := 0; i < 4; i++ {
			e.refresh <- nil
		}
	}
	b1.IncrBy(2)
	if mode == vManual {
		for i := 0; i < 4; i++ {
			e.refresh <- nil
		}
	}
	e.vFinish("S7", b0, b1)
	// lines that must remain on screen: emulate the terminal over the recorded frames
	// (cursor-up n erases the last n lines, then the frame's lines are appended)
	lines, width := 0, 0
	for i := 0; i < e.rec.n && i < vMaxFrames; i++ {
		if i > 0 {
			// the previous frame's redrawn part is replaced
			lines -= e.rec.cuu[i]
			width -= vPrevRedraw[i]
		}
		lines += e.rec.nl[i]
		width += e.rec.w[i]
		_ = width
	}
	vAssert(e.rec.n < vMaxFrames, "S7.frames-within-recorder-capacity")
	if mode != vPlain {
		vAssert(lines == 2, "S7.each-finished-bar-is-on-screen-exactly-once")
	}
}

var vPrevRedraw [vMaxFrames]int

// ---- S8: text written through the container (C13)
type vLineRec struct {
	vFrameRec
}

func vsS8() {
	mode := vModeParam()
	e := vNewContainer(mode, -1)
	m0 := vNewMark(0)
	m0.digit = 3
	opts0 := []BarOption{BarFillerTrim()}
	if vParam("completeFirst") == 3 {
		opts0 = append(opts0, BarRemoveOnComplete())
	}
	b0, _ := e.p.Add(2, m0, opts0...)
	accepted := 0
	wdone := make(chan struct{})
	writer := func() {
		for i := 0; i < 2; i++ {
			n, err := e.p.Write([]byte(vMarkText(100, 1, i+1)))
			if err == nil && n == 101 {
				accepted++
			} else {
				vAssert(n == 0 && err == ErrDone, "S8.rejected-write-is-ErrDone")
			}
		}
		close(wdone)
	}
	switch vParam("completeFirst") {
	case 0:
		go writer()
		<-wdone
		b0.IncrBy(2)
	case 1:
		go writer()
		b0.IncrBy(2)
		<-wdone
	default:
		// the lines are written after the bar has finished for good (no frame is owed to any bar any more)
		b0.IncrBy(2)
		if mode != vManual {
			b0.Wait()
		}
		go writer()
		<-wdone
	}
	if mode == vManual {
		e.refresh <- nil
		e.refresh <- nil
	}
	e.vFinish("S8", b0)
	if mode == vAuto {
		// every accepted line (width 100, one newline) was written exactly once: total width = 100*accepted + bar rows
		totalW, totalNL, rows := 0, 0, 0
		for i := 0; i < e.rec.n && i < vMaxFrames; i++ {
			totalW += e.rec.w[i]
			totalNL += e.rec.nl[i]
		}
		rows = m0.fills
		vAssert(e.rec.n < vMaxFrames, "S8.frames-within-recorder-capacity")
		vAssert(totalW == 100*accepted+rows && totalNL == accepted+rows, "S8.every-accepted-line-emitted-exactly-once")
		// order: line 1 before line 2, and within a frame the lines stand above the bar row (mark 3)
		seen1, seen2 := false, false
		for i := 0; i < e.rec.n && i < vMaxFrames; i++ {
			q := e.rec.seq[i]
			if q%16 == 3 {
				q /= 16 // the bar row is the last row of the frame
			}
			switch q {
			case 0:
			case 1:
				vAssert(!seen1 && !seen2, "S8.lines-in-call-order-above-the-bars")
				seen1 = true
			case 2:
				vAssert(seen1 && !seen2, "S8.lines-in-call-order-above-the-bars")
				seen2 = true
			case 0x12:
				vAssert(!seen1 && !seen2, "S8.lines-in-call-order-above-the-bars")
				seen1, seen2 = true, true
			default:
				vAssert(false, "S8.lines-in-call-order-above-the-bars")
			}
		}
	}
}

// ---- S9: more bars than the heap-manager queue holds (C01, C02, C05)
func vsS9() {
	mode := vModeParam()
	e := vNewContainer(mode, vParam("queueLen"))
	m0, m1 := vNewMark(0), vNewMark(1)
	b0, _ := e.p.Add(2, m0, BarFillerTrim())
	b1, _ := e.p.Add(2, m1, BarFillerTrim())
	if mode == vManual {
		e.refresh <- nil
		e.refresh <- nil
	}
	b0.IncrBy(2)
	b1.IncrBy(2)
	if mode == vManual {
		e.refresh <- nil
		e.refresh <- nil
	}
	e.vFinish("S9", b0, b1)
	if mode != vPlain {
		// a frame shows bar 0 alone (the second bar not added yet) or both bars; once both have been shown none
		// of them may vanish from a later frame (both stay in the container until the end)
		both := false
		for i := 0; i < e.rec.n && i < vMaxFrames; i++ {
			w := e.rec.w[i]
			vAssert(w == 0 || w == 1 || w == 11, "S9.frame-shows-each-bar-at-most-once-in-order-of-creation")
			if both {
				vAssert(w == 11 && e.rec.nl[i] == 2, "S9.every-frame-shows-both-bars-once")
			}
			if w == 11 {
				both = true
			}
		}
	}
}

// ---- S11: two client goroutines on one bar (C10): no update is lost
func vsS11() {
	mode := vModeParam()
	e := vNewContainer(mode, -1)
	m0 := vNewMark(0)
	b, _ := e.p.Add(10, m0, BarFillerTrim())
	done := make(chan struct{})
	go func() {
		b.IncrBy(2)
		b.SetRefill(1)
		done <- struct{}{}
	}()
	go func() {
		b.IncrBy(3)
		_ = b.Current()
		done <- struct{}{}
	}()
	c1 := b.Current()
	<-done
	<-done
	c2 := b.Current()
	vAssert(c1 == 0 || c1 == 2 || c1 == 3 || c1 == 5, "S11.getter-sees-a-state-on-some-sequential-order")
	vAssert(c2 == 5, "S11.no-update-lost-at-quiescence")
	b.IncrBy(5)
	if mode == vManual {
		e.refresh <- nil
		e.refresh <- nil
	}
	e.vFinish("S11", b)
	vAssert(b.Current() == 10 && b.Completed(), "S11.final-state")
}

// ---- S12: a bar leaves a synchronised column and a new bar is added before the next frame (C01, C12)
func vsS12() {
	mode := vModeParam()
	e := vNewContainer(mode, -1)
	e.vTicks()
	cSync := vParam("newBarSync") != 0
	dA, dB, dC := vNewSync(vMakeText(5, 0)), vNewSync(vMakeText(2, 0)), vNewSync(vMakeText(3, 0))
	mA, mB, mC := vNewMark(2), vNewMark(3), vNewMark(4)
	a, _ := e.p.Add(1, mA, BarFillerTrim(), PrependDecorators(dA), BarRemoveOnComplete())
	b, _ := e.p.Add(2, mB, BarFillerTrim(), PrependDecorators(dB))
	if mode == vManual {
		e.cycle() // both bars drawn side by side
	}
	a.IncrBy(1)
	if mode == vManual {
		e.cycle() // A drawn in its completed state
		e.cycle() // A leaves the container
	} else {
		a.Wait()
	}
	optsC := []BarOption{BarFillerTrim()}
	if cSync {
		optsC = append(optsC, PrependDecorators(dC))
	}
	c, _ := e.p.Add(2, mC, optsC...)
	if mode == vManual {
		e.cycle()
		e.cycle()
	}
	b.IncrBy(2)
	c.IncrBy(2)
	if mode == vManual {
		e.cycle()
		e.cycle()
	}
	e.vFinish("S12", a, b, c)
	if mode != vPlain {
		// after the wide bar A has left, the column shrinks to the widest remaining member
		want := 2
		if cSync {
			want = 3
		}
		vAssert(dB.last == want, "S12.column-width-follows-membership")
		if cSync {
			vAssert(dC.last == want, "S12.new-member-gets-the-common-width")
		}
	}
}

// ---- S13: row order follows priority; priority changes; a successor takes its predecessor's row (C06, C17)
// Rows carry order marks 1..4 (bars A..D); a frame's fingerprint lists the marks from top to bottom.
func vsS13() {
	var extra []ContainerOption
	if vParam("case") == 6 {
		extra = append(extra, PopCompletedMode())
	}
	q := -1
	if vParam("case") == 7 {
		q = 0 // every request to the heap manager finds its queue full
	}
	e := vNewContainer(vManual, q, extra...)
	e.vTicks()
	mk := func(d int) *vMark {
		m := vNewMark(0)
		m.width, m.digit = 3, d
		return m
	}
	mA, mB, mC, mD := mk(1), mk(2), mk(3), mk(4)
	which := vParam("case")
	optsC := []BarOption{BarFillerTrim()}
	if which == 4 {
		optsC = append(optsC, BarRemoveOnComplete())
	}
	a, _ := e.p.Add(2, mA, BarFillerTrim())
	b, _ := e.p.Add(2, mB, BarFillerTrim())
	c, _ := e.p.Add(2, mC, optsC...)
	bars := []*Bar{a, b, c}
	last := func() int { return e.rec.seq[e.rec.n-1] }
	var d *Bar
	if which == 3 {
		d, _ = e.p.Add(2, mD, BarFillerTrim(), BarQueueAfter(a))
		bars = append(bars, d)
	}
	e.cycle()
	vAssert(last() == 0x123, "S13.default-priority-is-creation-order")
	switch which {
	case 0:
		b.SetPriority(-1)
		e.cycle()
		vAssert(last() == 0x213, "S13.immediate-change-honoured-from-the-next-frame")
	case 1:
		e.p.UpdateBarPriority(b, -1, true)
		e.cycle() // order of this single frame is unspecified
		e.cycle()
		vAssert(last() == 0x213, "S13.lazy-change-honoured-from-the-frame-after-next")
	case 2:
		e.p.UpdateBarPriority(b, 7, true)
		b.SetPriority(-1)
		e.cycle()
		e.cycle()
		vAssert(last() == 0x213, "S13.newer-immediate-change-wins-over-older-lazy-change")
	case 3:
		a.SetPriority(5)
		e.cycle()
		vAssert(last() == 0x231, "S13.queued-bar-not-displayed-while-predecessor-is")
		a.IncrBy(2)
		e.cycle()
		e.cycle()
		vAssert(last() == 0x231, "S13.predecessor-last-frame")
		e.cycle()
		vAssert(last() == 0x234, "S13.successor-takes-the-predecessors-current-place")
	case 4:
		// a bar that has left the container (the bottom row, taken from the heap first) ignores a late priority change
		c.IncrBy(2)
		e.cycle()
		e.cycle()
		e.cycle()
		vAssert(last() == 0x12, "S13.removed-bar-is-gone")
		c.SetPriority(9)
		e.p.UpdateBarPriority(c, -3, true)
		e.cycle()
		vAssert(last() == 0x12, "S13.late-priority-change-of-a-removed-bar-does-nothing")
	case 5:
		// a finished bar that stays on screen can still be moved
		a.IncrBy(2)
		e.cycle()
		e.cycle()
		e.cycle()
		vAssert(last() == 0x123, "S13.finished-bar-keeps-its-place")
		a.SetPriority(9)
		e.cycle()
		vAssert(last() == 0x231, "S13.priority-change-of-a-finished-bar-that-is-still-displayed")
	case 7:
		// two priority changes of one bar in a row: the later one wins (no update lost or reordered)
		b.SetPriority(7)
		b.SetPriority(-1)
		e.cycle()
		e.cycle()
		vAssert(last() == 0x213, "S13.last-of-two-priority-changes-wins")
	case 6:
		// pop-completed mode: two bars finish between the same two frames; they rise above the running bar
		// in the order the container saw them finish (it collects the rows from the bottom up)
		a.IncrBy(2)
		b.IncrBy(2)
		c.IncrBy(2)
		e.cycle()
		e.cycle()
		e.cycle()
		vAssert(last() == 0x321, "S13.popped-bars-rise-in-finishing-order")
	}
	if which != 6 { // in case 6 every bar has been popped: further cycles write nothing
		for _, x := range bars {
			x.IncrBy(2)
		}
		e.cycle()
		e.cycle()
	}
	e.vFinish("S13", bars...)
}

// ---- S14: getters and mutators from a second goroutine that is not ordered with the bar's completion and
// shutdown (C10: free of data races, including getters called while a bar is shutting down or after it)
func vsS14() {
	mode := vModeParam()
	e := vNewContainer(mode, -1)
	m0 := vNewMark(0)
	b, _ := e.p.Add(2, m0, BarFillerTrim())
	sig := make(chan struct{})
	done := make(chan struct{})
	var id int
	var cur int64
	go func() {
		<-sig
		id = b.ID()
		cur = b.Current()
		_ = b.Completed()
		_ = b.Aborted()
		_ = b.IsRunning()
		b.SetRefill(1)
		b.IncrBy(1)
		close(done)
	}()
	if vParam("completeFirst") != 0 {
		b.IncrBy(2) // completes: the bar stops on its own from here on
		sig <- struct{}{}
	} else {
		sig <- struct{}{}
		b.IncrBy(2)
	}
	<-done
	vAssert(id == 0, "S14.id")
	vAssert(cur == 0 || cur == 2, "S14.getter-sees-a-state-on-some-sequential-order")
	// a late Abort(true) on the finished bar from a goroutine that is not ordered with the frames drawn meanwhile
	done2 := make(chan struct{})
	go func() {
		<-sig
		b.Abort(true)
		b.SetRefill(1)
		close(done2)
	}()
	sig <- struct{}{}
	if mode == vManual {
		e.refresh <- nil
		e.refresh <- nil
	}
	<-done2
	e.vFinish("S14", b)
	vAssert(b.ID() == 0 && b.Current() == 2 && b.Completed(), "S14.final-state")
}

// ---- S15: render delay and non-terminal output (C04): nothing is written before the delay ends; a container
// that is neither refreshing nor attached to a terminal writes nothing at all
func vsS15() {
	mode := vModeParam()
	useDelay := vParam("delay") != 0
	var delay chan struct{}
	var extra []ContainerOption
	if useDelay {
		delay = make(chan struct{})
		extra = append(extra, WithRenderDelay(delay))
	}
	e := vNewContainer(mode, -1, extra...)
	m0 := vNewMark(0)
	b, _ := e.p.Add(3, m0, BarFillerTrim())
	b.IncrBy(1)
	if mode == vManual {
		// when the third request has been accepted the first render cycle is complete
		e.refresh <- nil
		e.refresh <- nil
		e.refresh <- nil
	} else {
		_ = b.Current()
		_ = b.Current()
	}
	if useDelay {
		vAssert(e.rec.n == 0, "S15.nothing-written-before-the-render-delay-ends")
		close(delay)
	}
	b.IncrBy(2)
	if mode == vManual {
		e.refresh <- nil
		e.refresh <- nil
	}
	e.vFinish("S15", b)
	if mode == vAuto && useDelay {
		// the delay ended before the bar finished: the final frame is due (C03), whichever of the two ready
		// channels (delay over, container done) the container goroutine looks at first
		last := e.rec.n - 1
		vAssert(e.rec.n >= 1 && e.rec.w[last] == 1 && e.rec.nl[last] == 1, "S15.final-frame-written-after-the-delay-ended")
	}
	if mode == vPlain {
		vAssert(e.rec.n == 0, "S15.no-output-when-not-a-terminal-and-not-refreshing")
	}
}

// ---- S16: containers created, used and waited on one after the other (C16: goroutines do not accumulate)
func vsS16() {
	mode := vModeParam()
	for round := 0; round < 2; round++ {
		e := vNewContainer(mode, -1)
		m0 := vNewMark(0)
		b, _ := e.p.Add(2, m0, BarFillerTrim())
		if round == 0 {
			b.IncrBy(2)
		} else {
			b.IncrBy(1)
			b.Abort(false)
		}
		if mode == vManual {
			e.refresh <- nil
			e.refresh <- nil
		}
		e.vFinish("S16", b)
	}
}
