package mpb

// Tier-B scenarios: closed programs over the real container, real bars and all library goroutines.

type vRec struct {
	writes int
	bytes  int
	nl     int
}

func (r *vRec) Write(p []byte) (int, error) {
	r.writes++
	r.bytes += len(p)
	r.nl += vTextNL(string(p))
	return len(p), nil
}

// one bar, non-refreshing container, complete, Wait
func vsPlain1() {
	rec := &vRec{}
	p := New(WithOutput(rec))
	b, err := p.Add(2, nil)
	vAssert(err == nil, "S.plain1.add-ok")
	b.IncrInt64(2)
	p.Wait()
	vAssert(b.Completed(), "S.plain1.completed")
	vAssert(rec.writes == 0, "S.plain1.no-output")
	vCover("S.plain1.waited")
}

// one bar, auto-refresh container with a ticker of vTickBudget ticks
func vsAuto1() {
	rec := &vRec{}
	p := New(WithOutput(rec), WithAutoRefresh())
	b, err := p.Add(2, nil)
	vAssert(err == nil, "S.auto1.add-ok")
	b.IncrInt64(2)
	p.Wait()
	vAssert(b.Completed(), "S.auto1.completed")
	vAssert(rec.writes >= 1, "S.auto1.some-output")
	vCover("S.auto1.waited")
}
