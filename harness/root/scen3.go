package mpb

import (
	"time"

	"github.com/vbauerster/mpb/v8/decor"
)

// Scenarios added after the third round of seeded changes (see DESIGN.md I.12).

// vNewSyncT: a width-synchronised decorator whose text has a symbolic display width 1..9.
func vNewSyncT(name string) (*vSyncDecor, int) {
	t := vText(name)
	w := vTextWidth(t)
	vAssume(w >= 1 && w <= 9 && vTextNL(t) == 0)
	return vNewSync(t), w
}

func vMax(a, b int) int {
	if a > b {
		return a
	}
	return b
}

// ---- S17: bars with different numbers of synchronised decorators per side (C12): columns are formed per side
// and ordinal; widths are symbolic
func vsS17() {
	mode := vModeParam()
	e := vNewContainer(mode, -1)
	if mode == vManual {
		e.vTicks()
	}
	// (concrete widths: symbolic texts make every branch of the whole container symbolic, which does not finish)
	wp0, wa0, wp1, wq1, wa1 := 1, 2, 3, 5, 7
	p0, a0 := vNewSync(vMakeText(wp0, 0)), vNewSync(vMakeText(wa0, 0))
	p1, q1, a1 := vNewSync(vMakeText(wp1, 0)), vNewSync(vMakeText(wq1, 0)), vNewSync(vMakeText(wa1, 0))
	var first decor.Decorator = p0
	if vParam("onComplete") != 0 {
		// the usual idiom for blanking a decorator on completion: the wrapper keeps its place in the column
		first = decor.OnComplete(p0, "")
	}
	b0, _ := e.p.Add(2, vNewMark(2), BarFillerTrim(), PrependDecorators(first), AppendDecorators(a0))
	b1, _ := e.p.Add(2, vNewMark(3), BarFillerTrim(), PrependDecorators(p1, q1), AppendDecorators(a1))
	if mode == vManual {
		e.cycle()
	} else {
		_ = b0.Current()
	}
	b0.IncrBy(2)
	if vParam("onComplete") != 0 && mode == vManual {
		e.cycle() // bar 0 is drawn completed while bar 1 still runs: the column goes on working
		e.cycle()
		vAssert(p1.last == wp1, "S17.column-of-a-blanked-completed-decorator-follows-the-remaining-members")
	}
	b1.IncrBy(2)
	if mode == vManual {
		e.refresh <- nil
		e.refresh <- nil
	}
	e.vFinish("S17", b0, b1)
	vAssert(p1.calls >= 1 && a0.calls >= 1 && a1.calls >= 1 && q1.calls >= 1, "S17.every-decorator-drawn")
	if vParam("onComplete") == 0 {
		vAssert(p0.calls >= 1, "S17.every-decorator-drawn")
		vAssert(p0.last == vMax(wp0, wp1) && p1.last == vMax(wp0, wp1), "S17.first-prepend-column-common-width")
	} else if mode == vManual {
		// (under auto refresh the wrapped decorator may never be asked before its bar completes)
		vAssert(p0.calls >= 1 && p0.last == vMax(wp0, wp1), "S17.first-prepend-column-common-width")
	}
	vAssert(q1.last == wq1, "S17.second-prepend-column-has-one-member")
	vAssert(a0.last == vMax(wa0, wa1) && a1.last == vMax(wa0, wa1), "S17.append-column-common-width")
}

// ---- S18: the render delay never ends before the container is shut down (C04: nothing is written; C14/C01:
// everything still stops)
func vsS18() {
	mode := vModeParam()
	delay := make(chan struct{})
	e := vNewContainer(mode, -1, WithRenderDelay(delay))
	m0 := vNewMark(0)
	b, _ := e.p.Add(3, m0, BarFillerTrim())
	b.IncrBy(1)
	if mode == vManual {
		e.refresh <- nil
		e.refresh <- nil
	} else {
		_ = b.Current()
	}
	switch vParam("stop") {
	case 0:
		b.IncrBy(2)
		if mode == vManual {
			e.refresh <- nil
			e.refresh <- nil
		}
	case 1:
		e.cancel()
	case 2:
		e.p.Shutdown()
	}
	e.vFinish("S18", b)
	vAssert(e.rec.n == 0, "S18.nothing-written-while-the-render-delay-is-pending")
}

// ---- S19: a Write that begins after a render error has shut the container down (C13): success means emitted
func vsS19() {
	mode := vModeParam()
	dbg := &vFrameRec{}
	e := vNewContainer(mode, -1, WithDebugOutput(dbg))
	m0 := vNewMark(0)
	m0.failAt = 1
	m0.rec = e.rec
	b0, _ := e.p.Add(4, m0, BarFillerTrim())
	if b0 != nil {
		b0.IncrBy(1)
	}
	if mode == vManual {
		select {
		case e.refresh <- nil:
		case <-vBarDone(b0):
		}
	}
	if b0 != nil {
		b0.Wait() // the failing cycle has cancelled the bars
	}
	n, err := e.p.Write([]byte(vMarkText(100000, 1, 1)))
	e.p.Wait()
	e.rec.closed = true
	emitted := 0
	for i := 0; i < e.rec.n && i < vMaxFrames; i++ {
		emitted += e.rec.w[i] / 100000
	}
	if err == nil {
		vAssert(n == 100001 && emitted == 1, "S19.a-write-reported-successful-is-emitted")
	} else {
		vAssert(n == 0 && err == ErrDone && emitted == 0, "S19.a-refused-write-is-ErrDone-and-emits-nothing")
	}
	<-e.notify
	vAssert(e.rec.late == 0, "S19.nothing-written-after-Wait")
	vCover("S19.waited")
}

// ---- S20: a shutdown listener that queries its own bar (C14): notified once, nothing hangs

type vQueryDecor struct {
	decor.WC
	bar      *Bar
	notified int
	seenCur  int64
	seenAb   bool
}

func (d *vQueryDecor) Decor(decor.Statistics) (string, int) { return "", 0 }
func (d *vQueryDecor) OnShutdown() {
	d.notified++
	if d.bar != nil {
		d.seenCur = d.bar.Current()
		d.seenAb = d.bar.Aborted()
	}
}

func vsS20() {
	mode := vModeParam()
	e := vNewContainer(mode, -1)
	l := &vQueryDecor{}
	l.Init()
	b, _ := e.p.Add(3, vNewMark(0), BarFillerTrim(), AppendDecorators(l))
	l.bar = b
	b.IncrBy(1)
	if mode == vManual {
		e.refresh <- nil
		e.refresh <- nil
	}
	switch vParam("stop") {
	case 0:
		b.IncrBy(2)
		if mode == vManual {
			e.refresh <- nil
			e.refresh <- nil
		}
	case 1:
		e.cancel()
	case 2:
		e.p.Shutdown()
	}
	e.vFinish("S20", b)
	vAssert(l.notified == 1, "S20.listener-notified-exactly-once")
	if vParam("stop") == 0 {
		vAssert(l.seenCur == 3 && !l.seenAb, "S20.listener-sees-the-final-state")
	} else {
		vAssert(l.seenCur == 1 && l.seenAb, "S20.listener-sees-the-final-state")
	}
}

// ---- S21: the output writer starts failing right before the shutdown (C16/C15: the error of the final render
// strands nobody)
func vsS21() {
	dbg := &vFrameRec{}
	e := vNewContainer(vAuto, -1, WithDebugOutput(dbg))
	m0 := vNewMark(0)
	b, _ := e.p.Add(3, m0, BarFillerTrim())
	b.IncrBy(1)
	_ = b.Current()
	e.rec.fail = -1 // every write from now on fails
	if vParam("stop") == 1 {
		e.cancel()
	}
	e.p.Shutdown()
	e.rec.closed = true
	vAssert(!b.IsRunning() && b.Aborted(), "S21.bar-stopped")
	<-e.notify
	vAssert(dbg.n <= 1, "S21.error-reported-at-most-once")
	vCover("S21.waited")
}

// ---- S22: chains and pop mode around queued bars (C17, C18, C06)
func vsS22() {
	mode := vModeParam()
	kase := vParam("case")
	var extra []ContainerOption
	if kase == 1 {
		extra = append(extra, PopCompletedMode())
	}
	e := vNewContainer(mode, -1, extra...)
	if kase >= 1 && mode == vManual {
		e.vTicks()
	}
	mk := func(digit int) *vMark {
		m := vNewMark(digit)
		m.digit = digit
		m.width = 10
		return m
	}
	switch kase {
	case 0:
		// a chain set up in advance: b waits for a, c waits for b
		ma, mb, mc := mk(1), mk(2), mk(3)
		a, _ := e.p.Add(1, ma, BarFillerTrim())
		b, _ := e.p.Add(1, mb, BarFillerTrim(), BarQueueAfter(a))
		c, _ := e.p.Add(1, mc, BarFillerTrim(), BarQueueAfter(b))
		for _, x := range []*Bar{a, b, c} {
			x.IncrBy(1)
			if mode == vManual {
				e.refresh <- nil
				e.refresh <- nil
				e.refresh <- nil
			} else {
				x.Wait()
			}
		}
		e.vFinish("S22", a, b, c)
		vAssert(ma.fills >= 1 && mb.fills >= 1 && mc.fills >= 1, "S22.every-bar-of-the-chain-was-displayed")
		if mode != vPlain {
			vAssert(e.rec.n >= 1 && e.rec.seq[e.rec.n-1] == 3, "S22.last-frame-shows-the-last-bar-of-the-chain")
		}
	case 1:
		// pop mode: top (1) and bottom (4) run, pred (2) finishes with succ (3) queued behind it, then bottom finishes
		mt, mp, ms, mbt := mk(1), mk(2), mk(3), mk(4)
		top, _ := e.p.Add(2, mt, BarFillerTrim())
		pred, _ := e.p.Add(2, mp, BarFillerTrim())
		succ, _ := e.p.Add(2, ms, BarFillerTrim(), BarQueueAfter(pred))
		bottom, _ := e.p.Add(2, mbt, BarFillerTrim())
		pred.IncrBy(2)
		if mode == vManual {
			e.cycle() // pred in its final state
			e.cycle() // pred's last frame; succ is handed its place
			e.cycle() // succ drawn
			vTrace("seqA", e.rec.seq[e.rec.n-1])
			vAssert(e.rec.seq[e.rec.n-1] == 0x134, "S22.successor-takes-the-predecessors-row-in-pop-mode")
		} else {
			pred.Wait()
		}
		bottom.IncrBy(2)
		if mode == vManual {
			e.cycle() // bottom in its final state
			e.cycle() // its last frame in place
			e.cycle() // popped: drawn above the running bars, once
			vTrace("seqB", e.rec.seq[e.rec.n-1])
			vAssert(e.rec.seq[e.rec.n-1] == 0x413, "S22.finished-bar-pops-above-the-running-bars")
			e.cycle()
			vTrace("seqC", e.rec.seq[e.rec.n-1])
			vAssert(e.rec.seq[e.rec.n-1] == 0x13, "S22.running-bars-keep-their-order-below-popped-bars")
		}
		top.IncrBy(2)
		succ.IncrBy(2)
		if mode == vManual {
			for i := 0; i < 3; i++ {
				e.refresh <- nil
			}
		}
		e.vFinish("S22", top, pred, succ, bottom)
		vAssert(ms.fills >= 1, "S22.successor-was-displayed")
	case 2:
		// a priority change on a bar that still waits for its predecessor concerns no bar of the frames
		mt, mp, ms := mk(1), mk(2), mk(3)
		top, _ := e.p.Add(2, mt, BarFillerTrim())
		pred, _ := e.p.Add(2, mp, BarFillerTrim())
		succ, _ := e.p.Add(2, ms, BarFillerTrim(), BarQueueAfter(pred))
		succ.SetPriority(vParam("waitingPrio"))
		if mode == vManual {
			e.cycle()
			vAssert(e.rec.seq[e.rec.n-1] == 0x12, "S22.waiting-bar-stays-hidden-and-no-bar-is-lost-when-its-priority-changes")
		} else {
			_ = top.Current()
		}
		vAssert(ms.fills == 0, "S22.waiting-bar-is-not-drawn-before-its-predecessor-finished")
		pred.IncrBy(2)
		if mode == vManual {
			e.cycle()
			e.cycle()
			e.cycle()
			vAssert(e.rec.seq[e.rec.n-1] == 0x13, "S22.successor-shown-once-in-the-predecessors-row")
		} else {
			pred.Wait()
		}
		top.IncrBy(2)
		succ.IncrBy(2)
		if mode == vManual {
			for i := 0; i < 3; i++ {
				e.refresh <- nil
			}
		}
		e.vFinish("S22", top, pred, succ)
		vAssert(e.left == 2, "S22.container-ends-with-the-top-bar-and-the-successor")
	}
}

// ---- S23: DecoratorAverageAdjust while the bar is being rendered (C10: decorators are touched by the bar
// goroutine only; race class)
func vsS23() {
	mode := vModeParam()
	e := vNewContainer(mode, -1)
	vSincePositive()
	start := time.Now()
	b, _ := e.p.Add(4, vNewMark(0), BarFillerTrim(),
		AppendDecorators(decor.NewAverageETA(decor.ET_STYLE_GO, start, nil), decor.NewAverageSpeed(0, "%.1f", start)))
	done := make(chan struct{})
	go func() {
		b.DecoratorAverageAdjust(start)
		b.DecoratorAverageAdjust(start)
		close(done)
	}()
	b.IncrBy(2)
	if mode == vManual {
		e.refresh <- nil
		e.refresh <- nil
	}
	<-done
	b.IncrBy(2)
	if mode == vManual {
		e.refresh <- nil
		e.refresh <- nil
	}
	e.vFinish("S23", b)
}

// ---- S24: where the text of a Write stands inside the frame that carries it (C13, C04): after the cursor has been
// moved up over the previous frame and before the bar rows.  Cursor-up sequences count as order mark 15
// (vMarkCursorUp), the text line is mark 2, the bar row mark 1; one output write per frame.
func vsS24() {
	vMarkCursorUp()
	e := vNewContainer(vManual, -1)
	e.vTicks()
	m := vNewMark(0)
	m.digit, m.width = 1, 10
	b, _ := e.p.Add(2, m, BarFillerTrim())
	if vParam("textBeforeFirstFrame") != 0 {
		n, err := e.p.Write([]byte(vMarkText(100, 1, 2)))
		vAssert(n == 101 && err == nil, "S24.write-accepted")
		e.cycle()
		vAssert(e.rec.seq[0] == 0x21 && e.rec.cuu[0] == 0, "S24.first-frame-is-text-then-row-without-cursor-movement")
	} else {
		e.cycle()
		vAssert(e.rec.seq[0] == 0x1 && e.rec.cuu[0] == 0, "S24.first-frame-is-the-row-without-cursor-movement")
	}
	n, err := e.p.Write([]byte(vMarkText(100, 1, 2)))
	vAssert(n == 101 && err == nil, "S24.write-accepted")
	e.cycle()
	vAssert(e.rec.cuu[1] == 1, "S24.cursor-moves-up-over-the-one-bar-row-of-the-previous-frame")
	vAssert(e.rec.seq[1] == 0xF21, "S24.text-stands-after-the-cursor-movement-and-above-the-bar-row")
	e.cycle()
	vAssert(e.rec.seq[2] == 0xF1 && e.rec.cuu[2] == 1, "S24.next-frame-redraws-only-the-bar-row")
	b.IncrBy(2)
	e.refresh <- nil
	e.refresh <- nil
	e.vFinish("S24", b)
}

// ---- S25: a render error while other bars are in the middle of the width exchange of a later column (C15, C01,
// C16): the failing bar has one synchronised decorator and is popped first; the two other bars have two each.
// The error is reported once, every bar is cancelled, Wait returns, nobody stays parked in WC.Format.
func vsS25() {
	mode := vModeParam()
	dbg := &vFrameRec{}
	e := vNewContainer(mode, -1, WithDebugOutput(dbg))
	mf := vNewMark(0)
	mf.rec = e.rec
	mf.failAt = vParam("failAtFill")
	a0 := vNewSync(vMakeText(1, 0))
	b0, b1 := vNewSync(vMakeText(2, 0)), vNewSync(vMakeText(1, 0))
	c0, c1 := vNewSync(vMakeText(3, 0)), vNewSync(vMakeText(2, 0))
	optsA := []BarOption{BarFillerTrim(), PrependDecorators(a0)}
	if vParam("failingBarPoppedFirst") != 0 {
		optsA = append(optsA, BarPriority(10))
	}
	ba, _ := e.p.Add(4, mf, optsA...)
	bb, _ := e.p.Add(4, vNewMark(1), BarFillerTrim(), PrependDecorators(b0, b1))
	bc, _ := e.p.Add(4, vNewMark(2), BarFillerTrim(), PrependDecorators(c0, c1))
	if mode == vManual {
		stopped := make(<-chan struct{})
		if ba != nil {
			stopped = vBarDone(ba)
		}
		for i := 0; i < 3; i++ {
			select {
			case e.refresh <- nil:
			case <-stopped:
			}
		}
		e.cancel()
	}
	e.p.Wait()
	e.rec.closed = true
	for _, b := range []*Bar{ba, bb, bc} {
		vAssert(b == nil || !b.IsRunning(), "S25.all-bars-cancelled")
	}
	if mf.fills >= mf.failAt {
		vAssert(dbg.n == 1, "S25.error-reported-to-debug-output-exactly-once")
		vAssert(e.rec.n == mf.framesAtFail, "S25.no-frame-in-or-after-the-failing-cycle")
	}
	<-e.notify
	vAssert(e.rec.late == 0, "S25.nothing-written-after-Wait")
	vCover("S25.waited")
}
