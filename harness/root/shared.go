package mpb

import (
	"errors"

	"github.com/vbauerster/mpb/v8/decor"
)

// Helpers shared by several harness files; public API of the library only, so that a refactoring of the
// library's internals which makes one white-box harness file unbuildable does not take the others with it.

var vErrIO = errors.New("underlying i/o error")

func vWCFlags(name string) int {
	f := vInt(name)
	vAssume(f == 0 || f == decor.DindentRight || f == decor.DextraSpace || f == decor.DindentRight|decor.DextraSpace)
	return f
}

func vWrap(d decor.Decorator, depth int) decor.Decorator {
	if depth >= 1 {
		d = decor.Meta(d, func(s string) string { return s })
	}
	if depth >= 2 {
		d = decor.OnAbort(d, "aborted")
	}
	if depth >= 3 {
		d = decor.OnComplete(d, "done")
	}
	return d
}

// vBarDone: a channel closed when the bar has stopped (public API: Bar.Wait). A nil bar counts as stopped.
func vBarDone(b *Bar) <-chan struct{} {
	ch := make(chan struct{})
	if b == nil {
		close(ch)
		return ch
	}
	go func() {
		b.Wait()
		close(ch)
	}()
	return ch
}
