package mpb

// Harness vocabulary. The symbolic executor (gosmt) intercepts these by name; the bodies below are
// only used when a counterexample is replayed natively (values come from vModel).

var vModel = map[string]int64{}
var vFailures []string
var vCovered = map[string]bool{}

func vInt64(name string) int64 { return vModel[name] }
func vInt(name string) int     { return int(vModel[name]) }
func vUint(name string) uint   { return uint(vModel[name]) }
func vBool(name string) bool   { return vModel[name] != 0 }

type vAssumeFailed struct{}

func vAssume(c bool) {
	if !c {
		panic(vAssumeFailed{})
	}
}
func vAssert(c bool, id string) {
	if !c {
		vFailures = append(vFailures, id)
	}
}
func vCover(id string) { vCovered[id] = true }
func vYield()          {}
func vUnwind(n int)    {}
func vSteps(n int)     {}
func vSliceCap(n int)  {}
