package mpb

import (
	"math/big"
	"runtime"
	"strings"
	"sync/atomic"
	"time"

	"github.com/mattn/go-runewidth"
)

// Harness vocabulary. The symbolic executor (gosmt) intercepts these by name; the bodies below are
// only used when a counterexample is replayed natively (values come from vModel).

var vModel = map[string]int64{}
var vFailures []string
var vCovered = map[string]bool{}

func vInt64(name string) int64 { return vModel[name] }
func vInt(name string) int     { return int(vModel[name]) }
func vUint(name string) uint   { return uint(vModel[name]) }
func vBool(name string) bool   { return vModel[name] != 0 }

type vAssumeFailed struct{}

func vAssume(c bool) {
	if !c {
		panic(vAssumeFailed{})
	}
}
func vAssert(c bool, id string) {
	if !c {
		vFailures = append(vFailures, id)
	}
}
func vCover(id string)       { vCovered[id] = true }
func vYield()                {}
func vUnwind(n int)          {}
func vSteps(n int)           {}
func vSliceCap(n int)        {}
func vSincePositive()        {}

// vMarkCursorUp: from now on a cursor-up sequence (ESC [ n A) counts as order mark 15 in vTextSeq, so that the
// position of the cursor movement relative to the marked pieces of one write can be read back.
var vMarkCUU bool

func vMarkCursorUp() { vMarkCUU = true }

func vStartAgo(ns int64) time.Time { return time.Now().Add(-time.Duration(ns)) }
func vParam(name string) int { return int(vModel[name]) }

// ---- text vocabulary (native bodies build real strings with the requested display width)

// vTextShape varies how a (width, length) pair from the solver's model is realised as a native string: the
// abstraction fixes neither the number of runes nor their kinds, so replays try a few shapes.
var vTextShape int

func vText(name string) string {
	w := int(vModel[name+".w"])
	n := int(vModel[name+".n"])
	switch vTextShape {
	case 1: // as few runes as possible: double-width runes, no zero-width ones
		out := ""
		for cw := w; cw > 0; {
			if cw >= 2 {
				out += "\u4e16"
				cw -= 2
			} else {
				out += "x"
				cw--
			}
		}
		return out
	case 2: // single-width runes only
		return vMakeWN(w, w)
	}
	return vMakeWN(w, n)
}
func vBytes(name string) []byte { return []byte(vText(name)) }

// vMakeWN builds a string of display width w and byte length n when possible (ASCII = 1 col/1 byte,
// CJK = 2 cols/3 bytes, combining mark = 0 cols/2 bytes); falls back to width-only.
func vMakeWN(w, n int) string {
	// (a byte length far beyond what the width needs is capped: it would only be padding of zero-width marks)
	if w > 1<<16 {
		w = 1 << 16
	}
	if n > 3*w+(1<<21) {
		n = 3*w + (1 << 21)
	}
	var sb strings.Builder
	for cw := w; cw > 0; {
		if cw >= 2 && n-sb.Len() >= 3 && n-sb.Len() > cw {
			sb.WriteString("\u4e16")
			cw -= 2
		} else {
			sb.WriteString("x")
			cw--
		}
	}
	for sb.Len()+2 <= n {
		sb.WriteString("\u0301")
	}
	if sb.Len() < n {
		sb.WriteString("\x01") // one byte short: a control character (no columns)
	}
	return sb.String()
}
func vMakeText(w, nl int) string {
	if w < 0 {
		w = 0
	}
	if nl < 0 {
		nl = 0
	}
	return strings.Repeat("x", w) + strings.Repeat("\n", nl)
}

// native measurements agree with the engine's Text abstraction: cursor control sequences (ESC [ ... letter) have
// no display width; vTextCUU is the line count of the cursor-up sequences
func vStripCSI(s string) (string, int) {
	out := make([]byte, 0, len(s))
	cuu := 0
	for i := 0; i < len(s); i++ {
		if s[i] == 0x1b && i+1 < len(s) && s[i+1] == '[' {
			j := i + 2
			n := 0
			for j < len(s) && (s[j] < 0x40 || s[j] > 0x7e) {
				if s[j] >= '0' && s[j] <= '9' {
					n = n*10 + int(s[j]-'0')
				}
				j++
			}
			if j < len(s) && s[j] == 'A' {
				cuu += n
			}
			i = j
			continue
		}
		out = append(out, s[i])
	}
	return string(out), cuu
}
func vTextWidth(s string) int {
	t, _ := vStripCSI(s)
	return runewidth.StringWidth(t)
}
func vTextLen(s string) int { return len(s) }
func vTextNL(s string) int  { return strings.Count(s, "\n") }

// ---- ghost arrays (oracle bookkeeping)

var vGhost = map[string][]int64{}
var vGhostF = map[string][]float64{}

func vGhostPut(tag string, v int64)    { vGhost[tag] = append(vGhost[tag], v) }
func vGhostPutF(tag string, v float64) { vGhostF[tag] = append(vGhostF[tag], v) }
func vGhostLen(tag string) int         { return len(vGhost[tag]) + len(vGhostF[tag]) }
func vGhostAt(tag string, i int) int64 {
	if i < len(vGhost[tag]) {
		return vGhost[tag][i]
	}
	return 0
}
func vGhostAtF(tag string, i int) float64 {
	if i < len(vGhostF[tag]) {
		return vGhostF[tag][i]
	}
	return 0
}

// vTextID: identity of a string's content (native: a hash).
func vTextID(s string) int {
	h := 1469598103934665603
	for i := 0; i < len(s); i++ {
		h = (h ^ int(s[i])) * 1099511628211
	}
	return h
}
func vTextCUU(s string) int {
	_, n := vStripCSI(s)
	return n
}

// vMarkText: a row of the given display width made of the letter for digit d (a=1, b=2, ...), so that the order
// of marked pieces in a longer text can be read back (vTextSeq: base-16 digits in order of appearance).
func vMarkText(w, nl, d int) string {
	if w < 0 {
		w = 0
	}
	if nl < 0 {
		nl = 0
	}
	return strings.Repeat(string(rune('a'+d-1)), w) + strings.Repeat("\n", nl)
}
func vTextSeq(s string) int {
	seq := 0
	prev := rune(0)
	rs := []rune(s)
	for i, r := range rs {
		if vMarkCUU && r == 'A' && i >= 3 {
			// ESC [ digits A
			j := i - 1
			for j >= 0 && rs[j] >= '0' && rs[j] <= '9' {
				j--
			}
			if j >= 1 && j < i-1 && rs[j] == '[' && rs[j-1] == 0x1b {
				seq = seq*16 + 15
				prev = 0
				continue
			}
		}
		if r >= 'a' && r <= 'o' {
			if r != prev {
				seq = seq*16 + int(r-'a'+1)
			}
			prev = r
		} else {
			prev = 0
		}
	}
	return seq
}

// vTrace: debugging aid (prints under the symbolic engine when VCHECK_VTRACE is set); no effect natively.
func vTrace(tag string, v int) {}

// vJit: schedule perturbation for native replays. The replay build instruments the library's concurrent
// code with a call before every statement; when switched on it yields or sleeps pseudo-randomly so that
// the schedule the solver found has a chance to occur. No effect otherwise (and never seen by the engine).
var vJitOn uint32
var vJitState uint64

func vJit() {
	if atomic.LoadUint32(&vJitOn) == 0 {
		return
	}
	x := atomic.AddUint64(&vJitState, 0x9E3779B97F4A7C15)
	x ^= x >> 30
	x *= 0xBF58476D1CE4E5B9
	x ^= x >> 27
	switch {
	case x%6 == 0:
		runtime.Gosched()
	case x%40 == 1:
		time.Sleep(time.Duration((x>>20)%300) * time.Microsecond)
	}
}

// vMulDiffWithin: k*|a*b - c*d| <= bound over the mathematical integers (the engine computes harness
// arithmetic exactly; the native oracle must not wrap either).
func vMulDiffWithin(a, b, c, d, k, bound int64) bool {
	x := new(big.Int).Mul(big.NewInt(a), big.NewInt(b))
	y := new(big.Int).Mul(big.NewInt(c), big.NewInt(d))
	x.Sub(x, y).Abs(x).Mul(x, big.NewInt(k))
	return x.Cmp(big.NewInt(bound)) <= 0
}
