package mpb

import (
	"bytes"
	"context"
	"io"
	"strings"
	"sync"
	"time"

	"github.com/acarl005/stripansi"
	"github.com/mattn/go-runewidth"
	"github.com/vbauerster/mpb/v8/decor"
)

// Bar represents a progress bar.
type Bar struct {
	index		int	// used by heap
	priority	int	// used by heap
	frameCh		chan *renderFrame
	operateState	chan func(*bState)
	container	*Progress
	bs		*bState
	bsOk		chan struct{}
	ctx		context.Context
	cancel		func()
}

type syncTable [2][]chan int
type extenderFunc func(decor.Statistics, ...io.Reader) ([]io.Reader, error)

// bState is actual bar's state.
type bState struct {
	id		int
	priority	int
	reqWidth	int
	shutdown	int
	total		int64
	current		int64
	refill		int64
	trimSpace	bool
	aborted		bool
	triggerComplete	bool
	rmOnComplete	bool
	noPop		bool
	autoRefresh	bool
	buffers		[3]*bytes.Buffer
	decorGroups	[2][]decor.Decorator
	ewmaDecorators	[]decor.EwmaDecorator
	filler		BarFiller
	extender	extenderFunc
	renderReq	chan<- time.Time
	waitBar		*Bar	// key for (*pState).queueBars
}

type renderFrame struct {
	rows		[]io.Reader
	shutdown	int
	rmOnComplete	bool
	noPop		bool
	err		error
}

func newBar(ctx context.Context, container *Progress, bs *bState) *Bar {
	vJit()
	ctx, cancel := context.WithCancel(ctx)
	vJit()

	bar := &Bar{
		priority:	bs.priority,
		frameCh:	make(chan *renderFrame, 1),
		operateState:	make(chan func(*bState)),
		bsOk:		make(chan struct{}),
		container:	container,
		ctx:		ctx,
		cancel:		cancel,
	}
	vJit()

	container.bwg.Add(1)
	vJit()
	go bar.serve(bs)
	vJit()
	return bar
}

// ProxyReader wraps io.Reader with metrics required for progress
// tracking. If `r` is 'unknown total/size' reader it's mandatory
// to call `(*Bar).SetTotal(-1, true)` after the wrapper returns
// `io.EOF`. If bar is already completed or aborted, returns nil.
// Panics if `r` is nil.
func (b *Bar) ProxyReader(r io.Reader) io.ReadCloser {
	vJit()
	if r == nil {
		vJit()
		panic("expected non nil io.Reader")
	}
	vJit()
	result := make(chan io.ReadCloser)
	vJit()
	select {
	case b.operateState <- func(s *bState) {
		vJit()
		result <- newProxyReader(r, b, len(s.ewmaDecorators) != 0)
	}:
		vJit()
		return <-result
	case <-b.ctx.Done():
		vJit()
		return nil
	}
}

// ProxyWriter wraps io.Writer with metrics required for progress tracking.
// If bar is already completed or aborted, returns nil.
// Panics if `w` is nil.
func (b *Bar) ProxyWriter(w io.Writer) io.WriteCloser {
	vJit()
	if w == nil {
		vJit()
		panic("expected non nil io.Writer")
	}
	vJit()
	result := make(chan io.WriteCloser)
	vJit()
	select {
	case b.operateState <- func(s *bState) {
		vJit()
		result <- newProxyWriter(w, b, len(s.ewmaDecorators) != 0)
	}:
		vJit()
		return <-result
	case <-b.ctx.Done():
		vJit()
		return nil
	}
}

// ID returns id of the bar.
func (b *Bar) ID() int {
	vJit()
	result := make(chan int)
	vJit()
	select {
	case b.operateState <- func(s *bState) { vJit(); result <- s.id }:
		vJit()
		return <-result
	case <-b.bsOk:
		vJit()
		return b.bs.id
	}
}

// Current returns bar's current value, in other words sum of all increments.
func (b *Bar) Current() int64 {
	vJit()
	result := make(chan int64)
	vJit()
	select {
	case b.operateState <- func(s *bState) { vJit(); result <- s.current }:
		vJit()
		return <-result
	case <-b.bsOk:
		vJit()
		return b.bs.current
	}
}

// SetRefill sets refill flag with specified amount.
// The underlying BarFiller will change its visual representation, to
// indicate refill event. Refill event may be referred to some retry
// operation for example.
func (b *Bar) SetRefill(amount int64) {
	vJit()
	select {
	case b.operateState <- func(s *bState) {
		vJit()
		if amount < s.current {
			vJit()
			s.refill = amount
		} else {
			vJit()
			s.refill = s.current
		}
	}:
	case <-b.ctx.Done():
	}
}

// TraverseDecorators traverses available decorators and calls `cb`
// on each unwrapped one.
func (b *Bar) TraverseDecorators(cb func(decor.Decorator)) {
	vJit()
	select {
	case b.operateState <- func(s *bState) {
		vJit()
		for _, group := range s.decorGroups {
			vJit()
			for _, d := range group {
				vJit()
				cb(unwrap(d))
			}
		}
	}:
	case <-b.ctx.Done():
	}
}

// EnableTriggerComplete enables triggering complete event. It's effective
// only for bars which were constructed with `total <= 0`. If `current >= total`
// at the moment of call, complete event is triggered right away.
func (b *Bar) EnableTriggerComplete() {
	vJit()
	select {
	case b.operateState <- func(s *bState) {
		vJit()
		if s.triggerComplete {
			vJit()
			return
		}
		vJit()
		if s.current >= s.total {
			vJit()
			s.current = s.total
			vJit()
			s.triggerCompletion(b)
		} else {
			vJit()
			s.triggerComplete = true
		}
	}:
	case <-b.ctx.Done():
	}
}

// SetTotal sets total to an arbitrary value. It's effective only for bar
// which was constructed with `total <= 0`. Setting total to negative value
// is equivalent to `(*Bar).SetTotal((*Bar).Current(), bool)` but faster.
// If `complete` is true complete event is triggered right away.
// Calling `(*Bar).EnableTriggerComplete` makes this one no operational.
func (b *Bar) SetTotal(total int64, complete bool) {
	vJit()
	select {
	case b.operateState <- func(s *bState) {
		vJit()
		if s.triggerComplete {
			vJit()
			return
		}
		vJit()
		if total < 0 {
			vJit()
			s.total = s.current
		} else {
			vJit()
			s.total = total
		}
		vJit()
		if complete {
			vJit()
			s.current = s.total
			vJit()
			s.triggerCompletion(b)
		}
	}:
	case <-b.ctx.Done():
	}
}

// SetCurrent sets progress' current to an arbitrary value.
func (b *Bar) SetCurrent(current int64) {
	vJit()
	if current < 0 {
		vJit()
		return
	}
	vJit()
	select {
	case b.operateState <- func(s *bState) {
		vJit()
		s.current = current
		vJit()
		if s.triggerComplete && s.current >= s.total {
			vJit()
			s.current = s.total
			vJit()
			s.triggerCompletion(b)
		}
	}:
	case <-b.ctx.Done():
	}
}

// Increment is a shorthand for b.IncrInt64(1).
func (b *Bar) Increment() {
	vJit()
	b.IncrInt64(1)
}

// IncrBy is a shorthand for b.IncrInt64(int64(n)).
func (b *Bar) IncrBy(n int) {
	vJit()
	b.IncrInt64(int64(n))
}

// IncrInt64 increments progress by amount of n.
func (b *Bar) IncrInt64(n int64) {
	vJit()
	select {
	case b.operateState <- func(s *bState) {
		vJit()
		s.current += n
		vJit()
		if s.triggerComplete && s.current >= s.total {
			vJit()
			s.current = s.total
			vJit()
			s.triggerCompletion(b)
		}
	}:
	case <-b.ctx.Done():
	}
}

// EwmaIncrement is a shorthand for b.EwmaIncrInt64(1, iterDur).
func (b *Bar) EwmaIncrement(iterDur time.Duration) {
	vJit()
	b.EwmaIncrInt64(1, iterDur)
}

// EwmaIncrBy is a shorthand for b.EwmaIncrInt64(int64(n), iterDur).
func (b *Bar) EwmaIncrBy(n int, iterDur time.Duration) {
	vJit()
	b.EwmaIncrInt64(int64(n), iterDur)
}

// EwmaIncrInt64 increments progress by amount of n and updates EWMA based
// decorators by dur of a single iteration.
func (b *Bar) EwmaIncrInt64(n int64, iterDur time.Duration) {
	vJit()
	select {
	case b.operateState <- func(s *bState) {
		vJit()
		var wg sync.WaitGroup
		vJit()
		wg.Add(len(s.ewmaDecorators))
		vJit()
		for _, d := range s.ewmaDecorators {
			vJit()
			d := d
			vJit()
			go func() {
				vJit()
				d.EwmaUpdate(n, iterDur)
				vJit()
				wg.Done()
			}()
		}
		vJit()
		s.current += n
		vJit()
		if s.triggerComplete && s.current >= s.total {
			vJit()
			s.current = s.total
			vJit()
			s.triggerCompletion(b)
		}
		vJit()
		wg.Wait()
	}:
	case <-b.ctx.Done():
	}
}

// EwmaSetCurrent sets progress' current to an arbitrary value and updates
// EWMA based decorators by dur of a single iteration.
func (b *Bar) EwmaSetCurrent(current int64, iterDur time.Duration) {
	vJit()
	if current < 0 {
		vJit()
		return
	}
	vJit()
	select {
	case b.operateState <- func(s *bState) {
		vJit()
		n := current - s.current
		vJit()
		var wg sync.WaitGroup
		vJit()
		wg.Add(len(s.ewmaDecorators))
		vJit()
		for _, d := range s.ewmaDecorators {
			vJit()
			d := d
			vJit()
			go func() {
				vJit()
				d.EwmaUpdate(n, iterDur)
				vJit()
				wg.Done()
			}()
		}
		vJit()
		s.current = current
		vJit()
		if s.triggerComplete && s.current >= s.total {
			vJit()
			s.current = s.total
			vJit()
			s.triggerCompletion(b)
		}
		vJit()
		wg.Wait()
	}:
	case <-b.ctx.Done():
	}
}

// DecoratorAverageAdjust adjusts decorators implementing decor.AverageDecorator interface.
// Call if there is need to set start time after decorators have been constructed.
func (b *Bar) DecoratorAverageAdjust(start time.Time) {
	vJit()
	b.TraverseDecorators(func(d decor.Decorator) {
		vJit()
		if d, ok := d.(decor.AverageDecorator); ok {
			vJit()
			d.AverageAdjust(start)
		}
	})
}

// SetPriority changes bar's order among multiple bars. Zero is highest
// priority, i.e. bar will be on top. If you don't need to set priority
// dynamically, better use BarPriority option.
func (b *Bar) SetPriority(priority int) {
	vJit()
	b.container.UpdateBarPriority(b, priority, false)
}

// Abort interrupts bar's running goroutine. Abort won't be engaged
// if bar is already in complete state. If drop is true bar will be
// removed as well. To make sure that bar has been removed call
// `(*Bar).Wait()` method.
func (b *Bar) Abort(drop bool) {
	vJit()
	select {
	case b.operateState <- func(s *bState) {
		vJit()
		if s.aborted || s.completed() {
			vJit()
			return
		}
		vJit()
		s.aborted = true
		vJit()
		s.rmOnComplete = drop
		vJit()
		s.triggerCompletion(b)
	}:
	case <-b.ctx.Done():
	}
}

// Aborted reports whether the bar is in aborted state.
func (b *Bar) Aborted() bool {
	vJit()
	result := make(chan bool)
	vJit()
	select {
	case b.operateState <- func(s *bState) { vJit(); result <- s.aborted }:
		vJit()
		return <-result
	case <-b.bsOk:
		vJit()
		return b.bs.aborted
	}
}

// Completed reports whether the bar is in completed state.
func (b *Bar) Completed() bool {
	vJit()
	result := make(chan bool)
	vJit()
	select {
	case b.operateState <- func(s *bState) { vJit(); result <- s.completed() }:
		vJit()
		return <-result
	case <-b.bsOk:
		vJit()
		return b.bs.completed()
	}
}

// IsRunning reports whether the bar is in running state.
func (b *Bar) IsRunning() bool {
	vJit()
	select {
	case <-b.ctx.Done():
		vJit()
		return false
	default:
		vJit()
		return true
	}
}

// Wait blocks until bar is completed or aborted.
func (b *Bar) Wait() {
	vJit()
	<-b.bsOk
}

func (b *Bar) serve(bs *bState) {
	vJit()
	decoratorsOnShutdown := func(group []decor.Decorator) {
		vJit()
		for _, d := range group {
			vJit()
			if d, ok := unwrap(d).(decor.ShutdownListener); ok {
				vJit()
				b.container.bwg.Add(1)
				vJit()
				go func() {
					vJit()
					d.OnShutdown()
					vJit()
					b.container.bwg.Done()
				}()
			}
		}
	}
	vJit()
	for {
		vJit()
		select {
		case op := <-b.operateState:
			vJit()
			op(bs)
		case <-b.ctx.Done():
			vJit()
			decoratorsOnShutdown(bs.decorGroups[0])
			vJit()
			decoratorsOnShutdown(bs.decorGroups[1])
			vJit()

			bs.aborted = !bs.completed()
			vJit()
			b.bs = bs
			vJit()
			close(b.bsOk)
			vJit()
			b.container.bwg.Done()
			vJit()
			return
		}
	}
}

func (b *Bar) render(tw int) {
	vJit()
	fn := func(s *bState) {
		vJit()
		frame := new(renderFrame)
		vJit()
		stat := s.newStatistics(tw)
		vJit()
		r, err := s.draw(stat)
		vJit()
		if err != nil {
			vJit()
			for _, buf := range s.buffers {
				vJit()
				buf.Reset()
			}
			vJit()
			frame.err = err
			vJit()
			b.frameCh <- frame
			vJit()
			return
		}
		vJit()
		frame.rows, frame.err = s.extender(stat, r)
		vJit()
		if s.aborted || s.completed() {
			vJit()
			frame.shutdown = s.shutdown
			vJit()
			frame.rmOnComplete = s.rmOnComplete
			vJit()
			frame.noPop = s.noPop
			vJit()

			s.shutdown++
		}
		vJit()
		b.frameCh <- frame
	}
	vJit()
	select {
	case b.operateState <- fn:
	case <-b.bsOk:
		vJit()
		fn(b.bs)
	}
}

func (b *Bar) tryEarlyRefresh(renderReq chan<- time.Time) {
	vJit()
	var otherRunning int
	vJit()
	b.container.traverseBars(func(bar *Bar) bool {
		vJit()
		if b != bar && bar.IsRunning() {
			vJit()
			otherRunning++
			vJit()
			return false
		}
		vJit()
		return true
	})
	vJit()
	if otherRunning == 0 {
		vJit()
		for {
			vJit()
			select {
			case renderReq <- time.Now():
			case <-b.ctx.Done():
				vJit()
				return
			}
		}
	}
}

func (b *Bar) wSyncTable() syncTable {
	vJit()
	result := make(chan syncTable)
	vJit()
	select {
	case b.operateState <- func(s *bState) { vJit(); result <- s.wSyncTable() }:
		vJit()
		return <-result
	case <-b.bsOk:
		vJit()
		return b.bs.wSyncTable()
	}
}

func (s *bState) draw(stat decor.Statistics) (_ io.Reader, err error) {
	vJit()
	decorFiller := func(buf *bytes.Buffer, group []decor.Decorator) (err error) {
		vJit()
		for _, d := range group {
			vJit()

			str, width := d.Decor(stat)
			vJit()
			if err != nil {
				vJit()
				continue
			}
			vJit()
			if w := stat.AvailableWidth - width; w >= 0 {
				vJit()
				_, err = buf.WriteString(str)
				vJit()
				stat.AvailableWidth = w
			} else if stat.AvailableWidth > 0 {
				vJit()
				trunc := runewidth.Truncate(stripansi.Strip(str), stat.AvailableWidth, "…")
				vJit()
				_, err = buf.WriteString(trunc)
				vJit()
				stat.AvailableWidth = 0
			}
		}
		vJit()
		return err
	}
	vJit()

	for i, buf := range s.buffers[:2] {
		vJit()
		err = decorFiller(buf, s.decorGroups[i])
		vJit()
		if err != nil {
			vJit()
			return nil, err
		}
	}
	vJit()

	spaces := []io.Reader{
		strings.NewReader(" "),
		strings.NewReader(" "),
	}
	vJit()
	if s.trimSpace || stat.AvailableWidth < 2 {
		vJit()
		for _, r := range spaces {
			vJit()
			_, _ = io.Copy(io.Discard, r)
		}
	} else {
		vJit()
		stat.AvailableWidth -= 2
	}
	vJit()

	err = s.filler.Fill(s.buffers[2], stat)
	vJit()
	if err != nil {
		vJit()
		return nil, err
	}
	vJit()

	return io.MultiReader(
		s.buffers[0],
		spaces[0],
		s.buffers[2],
		spaces[1],
		s.buffers[1],
		strings.NewReader("\n"),
	), nil
}

func (s *bState) wSyncTable() (table syncTable) {
	vJit()
	var start int
	vJit()
	var row []chan int
	vJit()

	for i, group := range s.decorGroups {
		vJit()
		for _, d := range group {
			vJit()
			if ch, ok := d.Sync(); ok {
				vJit()
				row = append(row, ch)
			}
		}
		vJit()
		table[i], start = row[start:], len(row)
	}
	vJit()
	return table
}

func (s *bState) triggerCompletion(b *Bar) {
	vJit()
	s.triggerComplete = true
	vJit()
	if s.autoRefresh {
		vJit()

		go b.tryEarlyRefresh(s.renderReq)
	} else {
		vJit()
		b.cancel()
	}
}

func (s *bState) completed() bool {
	vJit()
	return !s.aborted && s.triggerComplete && s.current == s.total
}

func (s bState) newStatistics(tw int) decor.Statistics {
	vJit()
	return decor.Statistics{
		AvailableWidth:	tw,
		RequestedWidth:	s.reqWidth,
		ID:		s.id,
		Total:		s.total,
		Current:	s.current,
		Refill:		s.refill,
		Completed:	s.completed(),
		Aborted:	s.aborted,
	}
}

func unwrap(d decor.Decorator) decor.Decorator {
	vJit()
	if d, ok := d.(decor.Wrapper); ok {
		vJit()
		return unwrap(d.Unwrap())
	}
	vJit()
	return d
}
