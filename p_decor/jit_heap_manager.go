package mpb

import (
	"container/heap"
	"sync"
)

type heapManager struct {
	req	chan heapRequest
	// pending counts detached pushes (see push), end waits for them
	// before the request channel is closed.
	pending	*sync.WaitGroup
}

func newHeapManager(queueLen int) heapManager {
	vJit()
	return heapManager{
		req:		make(chan heapRequest, queueLen),
		pending:	new(sync.WaitGroup),
	}
}

type heapCmd int

const (
	h_sync	heapCmd	= iota
	h_push
	h_iter
	h_fix
	h_state
	h_end
)

type heapRequest struct {
	cmd	heapCmd
	data	interface{}
}

type iterData struct {
	drop	<-chan struct{}
	iter	chan<- *Bar
	iterPop	chan<- *Bar
}

type pushData struct {
	bar	*Bar
	sync	bool
}

type fixData struct {
	bar		*Bar
	priority	int
	lazy		bool
}

func (m heapManager) run() {
	vJit()
	var bHeap priorityQueue
	vJit()
	var pMatrix, aMatrix map[int][]chan int
	vJit()

	var len int
	vJit()
	var sync bool
	vJit()

	for req := range m.req {
		vJit()
		switch req.cmd {
		case h_push:
			vJit()
			data := req.data.(pushData)
			vJit()
			heap.Push(&bHeap, data.bar)
			vJit()
			sync = sync || data.sync
		case h_sync:
			vJit()
			if sync || len != bHeap.Len() {
				vJit()
				pMatrix = make(map[int][]chan int)
				vJit()
				aMatrix = make(map[int][]chan int)
				vJit()
				for _, b := range bHeap {
					vJit()
					table := b.wSyncTable()
					vJit()
					for i, ch := range table[0] {
						vJit()
						pMatrix[i] = append(pMatrix[i], ch)
					}
					vJit()
					for i, ch := range table[1] {
						vJit()
						aMatrix[i] = append(aMatrix[i], ch)
					}
				}
				vJit()
				sync = false
				vJit()
				len = bHeap.Len()
			}
			vJit()
			drop := req.data.(<-chan struct{})
			vJit()
			syncWidth(pMatrix, drop)
			vJit()
			syncWidth(aMatrix, drop)
		case h_iter:
			vJit()
			data := req.data.(iterData)
			vJit()
		loop:
			for _, b := range bHeap {
				vJit()
				select {
				case data.iter <- b:
				case <-data.drop:
					vJit()
					data.iterPop = nil
					vJit()
					break loop
				}
			}
			vJit()
			close(data.iter)
			vJit()
			if data.iterPop == nil {
				vJit()
				break
			}
			vJit()
		loop_pop:
			for bHeap.Len() != 0 {
				vJit()
				bar := heap.Pop(&bHeap).(*Bar)
				vJit()
				select {
				case data.iterPop <- bar:
				case <-data.drop:
					vJit()
					heap.Push(&bHeap, bar)
					vJit()
					break loop_pop
				}
			}
			vJit()
			close(data.iterPop)
		case h_fix:
			vJit()
			data := req.data.(fixData)
			vJit()
			if data.bar.index < 0 {
				vJit()
				break
			}
			vJit()
			data.bar.priority = data.priority
			vJit()
			if !data.lazy {
				vJit()
				heap.Fix(&bHeap, data.bar.index)
			}
		case h_state:
			vJit()
			ch := req.data.(chan<- bool)
			vJit()
			ch <- sync || len != bHeap.Len()
		case h_end:
			vJit()
			ch := req.data.(chan<- interface{})
			vJit()
			if ch != nil {
				vJit()
				go func() {
					vJit()
					ch <- []*Bar(bHeap)
				}()
			}
			vJit()
			close(m.req)
		}
	}
}

func (m heapManager) sync(drop <-chan struct{}) {
	vJit()
	m.req <- heapRequest{cmd: h_sync, data: drop}
}

func (m heapManager) push(b *Bar, sync bool) {
	vJit()
	data := pushData{b, sync}
	vJit()
	req := heapRequest{cmd: h_push, data: data}
	vJit()
	select {
	case m.req <- req:
	default:
		vJit()
		m.pending.Add(1)
		vJit()
		go func() {
			vJit()
			m.req <- req
			vJit()
			m.pending.Done()
		}()
	}
}

func (m heapManager) iter(drop <-chan struct{}, iter, iterPop chan<- *Bar) {
	vJit()
	data := iterData{drop, iter, iterPop}
	vJit()
	m.req <- heapRequest{cmd: h_iter, data: data}
}

func (m heapManager) fix(b *Bar, priority int, lazy bool) {
	vJit()
	data := fixData{b, priority, lazy}
	vJit()
	m.req <- heapRequest{cmd: h_fix, data: data}
}

func (m heapManager) state(ch chan<- bool) {
	vJit()
	m.req <- heapRequest{cmd: h_state, data: ch}
}

func (m heapManager) end(ch chan<- interface{}) {
	vJit()

	m.pending.Wait()
	vJit()
	m.req <- heapRequest{cmd: h_end, data: ch}
}

func syncWidth(matrix map[int][]chan int, drop <-chan struct{}) {
	vJit()
	for _, column := range matrix {
		vJit()
		go maxWidthDistributor(column, drop)
	}
}

func maxWidthDistributor(column []chan int, drop <-chan struct{}) {
	vJit()
	var maxWidth int
	vJit()
	for _, ch := range column {
		vJit()
		select {
		case w := <-ch:
			vJit()
			if w > maxWidth {
				vJit()
				maxWidth = w
			}
		case <-drop:
			vJit()
			return
		}
	}
	vJit()
	for _, ch := range column {
		vJit()
		ch <- maxWidth
	}
}
