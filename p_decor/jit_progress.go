package mpb

import (
	"bytes"
	"context"
	"fmt"
	"io"
	"math"
	"os"
	"sync"
	"time"

	"github.com/vbauerster/mpb/v8/cwriter"
	"github.com/vbauerster/mpb/v8/decor"
)

const defaultRefreshRate = 150 * time.Millisecond
const defaultHmQueueLength = 128

// ErrDone represents use after `(*Progress).Wait()` error.
var ErrDone = fmt.Errorf("%T instance can't be reused after %[1]T.Wait()", (*Progress)(nil))

// Progress represents a container that renders one or more progress bars.
type Progress struct {
	uwg		*sync.WaitGroup
	pwg, bwg	sync.WaitGroup
	operateState	chan func(*pState)
	interceptIO	chan func(io.Writer)
	done		<-chan struct{}
	cancel		func()
}

// pState holds bars in its priorityQueue, it gets passed to (*Progress).serve monitor goroutine.
type pState struct {
	ctx		context.Context
	hm		heapManager
	iterDrop	chan struct{}
	renderReq	chan time.Time
	idCount		int
	popPriority	int

	// following are provided/overrode by user
	hmQueueLen		int
	reqWidth		int
	refreshRate		time.Duration
	popCompleted		bool
	autoRefresh		bool
	delayRC			<-chan struct{}
	manualRC		<-chan interface{}
	shutdownNotifier	chan<- interface{}
	queueBars		map[*Bar]*Bar
	output			io.Writer
	debugOut		io.Writer
	uwg			*sync.WaitGroup
}

// New creates new Progress container instance. It's not possible to
// reuse instance after `(*Progress).Wait` method has been called.
func New(options ...ContainerOption) *Progress {
	vJit()
	return NewWithContext(context.Background(), options...)
}

// NewWithContext creates new Progress container instance with provided
// context. It's not possible to reuse instance after `(*Progress).Wait`
// method has been called.
func NewWithContext(ctx context.Context, options ...ContainerOption) *Progress {
	vJit()
	if ctx == nil {
		vJit()
		ctx = context.Background()
	}
	vJit()
	ctx, cancel := context.WithCancel(ctx)
	vJit()
	s := &pState{
		ctx:		ctx,
		hmQueueLen:	defaultHmQueueLength,
		iterDrop:	make(chan struct{}),
		renderReq:	make(chan time.Time),
		popPriority:	math.MinInt32,
		refreshRate:	defaultRefreshRate,
		queueBars:	make(map[*Bar]*Bar),
		output:		os.Stdout,
		debugOut:	io.Discard,
	}
	vJit()

	for _, opt := range options {
		vJit()
		if opt != nil {
			vJit()
			opt(s)
		}
	}
	vJit()

	s.hm = newHeapManager(s.hmQueueLen)
	vJit()

	p := &Progress{
		uwg:		s.uwg,
		operateState:	make(chan func(*pState)),
		interceptIO:	make(chan func(io.Writer)),
		cancel:		cancel,
	}
	vJit()

	cw := cwriter.New(s.output)
	vJit()
	if s.manualRC != nil {
		vJit()
		done := make(chan struct{})
		vJit()
		p.done = done
		vJit()
		s.autoRefresh = false
		vJit()
		go s.manualRefreshListener(done)
	} else if cw.IsTerminal() || s.autoRefresh {
		vJit()
		done := make(chan struct{})
		vJit()
		p.done = done
		vJit()
		s.autoRefresh = true
		vJit()
		go s.autoRefreshListener(done)
	} else {
		vJit()
		p.done = ctx.Done()
		vJit()
		s.autoRefresh = false
	}
	vJit()

	p.pwg.Add(1)
	vJit()
	go p.serve(s, cw)
	vJit()
	go s.hm.run()
	vJit()
	return p
}

// AddBar creates a bar with default bar filler.
func (p *Progress) AddBar(total int64, options ...BarOption) *Bar {
	vJit()
	return p.New(total, BarStyle(), options...)
}

// AddSpinner creates a bar with default spinner filler.
func (p *Progress) AddSpinner(total int64, options ...BarOption) *Bar {
	vJit()
	return p.New(total, SpinnerStyle(), options...)
}

// New creates a bar by calling `Build` method on provided `BarFillerBuilder`.
func (p *Progress) New(total int64, builder BarFillerBuilder, options ...BarOption) *Bar {
	vJit()
	if builder == nil {
		vJit()
		return p.MustAdd(total, nil, options...)
	}
	vJit()
	return p.MustAdd(total, builder.Build(), options...)
}

// MustAdd creates a bar which renders itself by provided BarFiller.
// If `total <= 0` triggering complete event by increment methods is
// disabled. Panics if called after `(*Progress).Wait()`.
func (p *Progress) MustAdd(total int64, filler BarFiller, options ...BarOption) *Bar {
	vJit()
	bar, err := p.Add(total, filler, options...)
	vJit()
	if err != nil {
		vJit()
		panic(err)
	}
	vJit()
	return bar
}

// Add creates a bar which renders itself by provided BarFiller.
// If `total <= 0` triggering complete event by increment methods
// is disabled. If called after `(*Progress).Wait()` then
// `(nil, ErrDone)` is returned.
func (p *Progress) Add(total int64, filler BarFiller, options ...BarOption) (*Bar, error) {
	vJit()
	if filler == nil {
		vJit()
		filler = NopStyle().Build()
	} else if f, ok := filler.(BarFillerFunc); ok && f == nil {
		vJit()
		filler = NopStyle().Build()
	}
	vJit()
	ch := make(chan *Bar)
	vJit()
	select {
	case p.operateState <- func(ps *pState) {
		vJit()
		bs := ps.makeBarState(total, filler, options...)
		vJit()
		bar := newBar(ps.ctx, p, bs)
		vJit()
		if bs.waitBar != nil {
			vJit()
			ps.queueBars[bs.waitBar] = bar
		} else {
			vJit()
			ps.hm.push(bar, true)
		}
		vJit()
		ps.idCount++
		vJit()
		ch <- bar
	}:
		vJit()
		return <-ch, nil
	case <-p.done:
		vJit()
		return nil, ErrDone
	}
}

func (p *Progress) traverseBars(cb func(b *Bar) bool) {
	vJit()
	drop, iter := make(chan struct{}), make(chan *Bar)
	vJit()
	select {
	case p.operateState <- func(s *pState) { vJit(); s.hm.iter(drop, iter, nil) }:
		vJit()
		for b := range iter {
			vJit()
			if !cb(b) {
				vJit()
				close(drop)
				vJit()
				break
			}
		}
	case <-p.done:
	}
}

// UpdateBarPriority either immediately or lazy.
// With lazy flag order is updated after the next refresh cycle.
// If you don't care about laziness just use `(*Bar).SetPriority(int)`.
func (p *Progress) UpdateBarPriority(b *Bar, priority int, lazy bool) {
	vJit()
	if b == nil {
		vJit()
		return
	}
	vJit()
	select {
	case p.operateState <- func(s *pState) { vJit(); s.hm.fix(b, priority, lazy) }:
	case <-p.done:
	}
}

// Write is implementation of io.Writer.
// Writing to `*Progress` will print lines above a running bar.
// Writes aren't flushed immediately, but at next refresh cycle.
// If called after `(*Progress).Wait()` then `(0, ErrDone)` is returned.
func (p *Progress) Write(b []byte) (int, error) {
	vJit()
	type result struct {
		n	int
		err	error
	}
	vJit()
	ch := make(chan result)
	vJit()
	select {
	case p.interceptIO <- func(w io.Writer) {
		vJit()
		n, err := w.Write(b)
		vJit()
		ch <- result{n, err}
	}:
		vJit()
		res := <-ch
		vJit()
		return res.n, res.err
	case <-p.done:
		vJit()
		return 0, ErrDone
	}
}

// Wait waits for all bars to complete and finally shutdowns container. After
// this method has been called, there is no way to reuse `*Progress` instance.
func (p *Progress) Wait() {
	vJit()
	p.bwg.Wait()
	vJit()
	p.Shutdown()
	vJit()

	if p.uwg != nil {
		vJit()
		p.uwg.Wait()
	}
}

// Shutdown cancels any running bar immediately and then shutdowns `*Progress`
// instance. Normally this method shouldn't be called unless you know what you
// are doing. Proper way to shutdown is to call `(*Progress).Wait()` instead.
func (p *Progress) Shutdown() {
	vJit()
	p.cancel()
	vJit()
	p.pwg.Wait()
}

func (p *Progress) serve(s *pState, cw *cwriter.Writer) {
	vJit()
	defer p.pwg.Done()
	vJit()
	var err error
	vJit()
	var w *cwriter.Writer
	vJit()
	renderReq := s.renderReq
	vJit()
	operateState := p.operateState
	vJit()
	interceptIO := p.interceptIO
	vJit()

	if s.delayRC != nil {
		vJit()
		w = cwriter.New(io.Discard)
	} else {
		vJit()
		w, cw = cw, nil
	}
	vJit()

	for {
		vJit()
		select {
		case <-s.delayRC:
			vJit()
			w, cw = cw, nil
			vJit()
			s.delayRC = nil
		case op := <-operateState:
			vJit()
			op(s)
		case fn := <-interceptIO:
			vJit()
			fn(w)
		case <-renderReq:
			vJit()
			err = s.render(w)
			vJit()
			if err != nil {
				vJit()

				go func() {
					vJit()
					for {
						vJit()
						select {
						case <-s.renderReq:
						case <-p.done:
							vJit()
							return
						}
					}
				}()
				vJit()
				p.cancel()
				vJit()
				renderReq = nil
				vJit()
				operateState = nil
				vJit()
				interceptIO = nil
			}
		case <-p.done:
			vJit()
			if err != nil {
				vJit()
				_, _ = fmt.Fprintln(s.debugOut, err.Error())
			} else if s.autoRefresh {
				vJit()
				update := make(chan bool)
				vJit()
				for i := 0; i == 0 || <-update; i++ {
					vJit()
					if err := s.render(w); err != nil {
						vJit()
						_, _ = fmt.Fprintln(s.debugOut, err.Error())
						vJit()
						break
					}
					vJit()
					s.hm.state(update)
				}
			}
			vJit()
			s.hm.end(s.shutdownNotifier)
			vJit()
			return
		}
	}
}

func (s *pState) autoRefreshListener(done chan struct{}) {
	vJit()
	ticker := time.NewTicker(s.refreshRate)
	vJit()
	defer ticker.Stop()
	vJit()
	for {
		vJit()
		select {
		case t := <-ticker.C:
			vJit()
			s.renderReq <- t
		case <-s.ctx.Done():
			vJit()
			close(done)
			vJit()
			return
		}
	}
}

func (s *pState) manualRefreshListener(done chan struct{}) {
	vJit()
	for {
		vJit()
		select {
		case x := <-s.manualRC:
			vJit()
			if t, ok := x.(time.Time); ok {
				vJit()
				s.renderReq <- t
			} else {
				vJit()
				s.renderReq <- time.Now()
			}
		case <-s.ctx.Done():
			vJit()
			close(done)
			vJit()
			return
		}
	}
}

func (s *pState) render(cw *cwriter.Writer) (err error) {
	vJit()
	iter, iterPop := make(chan *Bar), make(chan *Bar)
	vJit()
	s.hm.sync(s.iterDrop)
	vJit()
	s.hm.iter(s.iterDrop, iter, iterPop)
	vJit()

	var width, height int
	vJit()
	if cw.IsTerminal() {
		vJit()
		width, height, err = cw.GetTermSize()
		vJit()
		if err != nil {
			vJit()
			close(s.iterDrop)
			vJit()
			return err
		}
	} else {
		vJit()
		if s.reqWidth > 0 {
			vJit()
			width = s.reqWidth
		} else {
			vJit()
			width = 80
		}
		vJit()
		height = width
	}
	vJit()

	for b := range iter {
		vJit()
		go b.render(width)
	}
	vJit()

	return s.flush(cw, height, iterPop)
}

func (s *pState) flush(cw *cwriter.Writer, height int, iter <-chan *Bar) error {
	vJit()
	var popCount int
	vJit()
	var rows []io.Reader
	vJit()

	for b := range iter {
		vJit()
		frame := <-b.frameCh
		vJit()
		if frame.err != nil {
			vJit()
			close(s.iterDrop)
			vJit()
			b.cancel()
			vJit()
			return frame.err
		}
		vJit()
		var usedRows int
		vJit()
		for i := len(frame.rows) - 1; i >= 0; i-- {
			vJit()
			if row := frame.rows[i]; len(rows) < height-1 {
				vJit()
				rows = append(rows, row)
				vJit()
				usedRows++
			} else {
				vJit()
				_, _ = io.Copy(io.Discard, row)
			}
		}
		vJit()

		switch frame.shutdown {
		case 1:
			vJit()
			b.cancel()
			vJit()
			if qb, ok := s.queueBars[b]; ok {
				vJit()
				delete(s.queueBars, b)
				vJit()
				qb.priority = b.priority
				vJit()
				s.hm.push(qb, true)
			} else if s.popCompleted && !frame.noPop {
				vJit()
				b.priority = s.popPriority
				vJit()
				s.popPriority++
				vJit()
				s.hm.push(b, false)
			} else if !frame.rmOnComplete {
				vJit()
				s.hm.push(b, false)
			}
		case 2:
			vJit()
			if s.popCompleted && !frame.noPop {
				vJit()
				popCount += usedRows
				vJit()
				continue
			}
			vJit()
			fallthrough
		default:
			vJit()
			s.hm.push(b, false)
		}
	}
	vJit()

	for i := len(rows) - 1; i >= 0; i-- {
		vJit()
		_, err := cw.ReadFrom(rows[i])
		vJit()
		if err != nil {
			vJit()
			return err
		}
	}
	vJit()

	return cw.Flush(len(rows) - popCount)
}

func (s pState) makeBarState(total int64, filler BarFiller, options ...BarOption) *bState {
	vJit()
	bs := &bState{
		id:		s.idCount,
		priority:	s.idCount,
		reqWidth:	s.reqWidth,
		total:		total,
		filler:		filler,
		renderReq:	s.renderReq,
		autoRefresh:	s.autoRefresh,
		extender: func(_ decor.Statistics, rows ...io.Reader) ([]io.Reader, error) {
			vJit()
			return rows, nil
		},
	}
	vJit()

	if total > 0 {
		vJit()
		bs.triggerComplete = true
	}
	vJit()

	for _, opt := range options {
		vJit()
		if opt != nil {
			vJit()
			opt(bs)
		}
	}
	vJit()

	for _, group := range bs.decorGroups {
		vJit()
		for _, d := range group {
			vJit()
			if d, ok := unwrap(d).(decor.EwmaDecorator); ok {
				vJit()
				bs.ewmaDecorators = append(bs.ewmaDecorators, d)
			}
		}
	}
	vJit()

	bs.buffers[0] = bytes.NewBuffer(make([]byte, 0, 128))
	vJit()
	bs.buffers[1] = bytes.NewBuffer(make([]byte, 0, 128))
	vJit()
	bs.buffers[2] = bytes.NewBuffer(make([]byte, 0, 256))
	vJit()

	return bs
}
