package mpb

// C10 (no update lost or reordered): two priority changes of one bar sent one after the other by the
// container goroutine are applied by the heap manager in that order, whatever the manager is doing meanwhile.
func vhC10FixOrder() {
	m := newHeapManager(1)
	go m.run()
	b := vBarFor(&bState{})
	m.push(b, false)
	m.fix(b, 7, false)
	m.fix(b, -1, false)
	ch := make(chan interface{}, 1)
	m.end(ch)
	got := (<-ch).([]*Bar)
	vAssert(len(got) == 1 && got[0] == b, "C10.fix.bar-in-heap")
	vAssert(b.priority == -1, "C10.fix.last-priority-change-wins")
	vCover("C10.fix.reach")
}
