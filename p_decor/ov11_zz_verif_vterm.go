package cwriter

import "io"

// VNewTerm: a Writer in terminal mode whose size query is answered by the harness.
func VNewTerm(out io.Writer, size func(int) (int, int, error)) *Writer {
	w := New(out)
	w.terminal = true
	w.termSize = size
	return w
}
