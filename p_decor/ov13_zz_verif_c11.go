package mpb

import "time"

// vAnyState: a completely arbitrary bar state, terminal or not (no invariant is assumed: every
// C11 obligation is proved from any state, so it holds along every history).
func vAnyState() *bState {
	return &bState{
		total:           vInt64("s.total"),
		current:         vInt64("s.current"),
		refill:          vInt64("s.refill"),
		triggerComplete: vBool("s.trigger"),
		aborted:         vBool("s.aborted"),
		rmOnComplete:    vBool("s.rm"),
		autoRefresh:     false,
	}
}

func vC11Post(pre vRef, s *bState, nondecreasing bool, id string) {
	vAssert(!(s.aborted && s.completed()), id+".exclusive")
	if pre.completed() && nondecreasing {
		vAssert(s.completed(), id+".completed-stable")
		vAssert(!s.aborted, id+".completed-not-aborted")
	}
	if pre.aborted {
		vAssert(s.aborted, id+".aborted-stable")
		vAssert(!s.completed(), id+".aborted-not-completed")
	}
}

func vhC11Ops() {
	s := vAnyState()
	pre := vSnap(s)
	b := vBarFor(s)
	op := vInt("op")
	vAssume(op >= 0 && op <= 6)
	nondecr := true
	switch op {
	case 0:
		n := vInt64("n")
		vNoWrapAdd(pre.current, n)
		nondecr = n >= 0
		vRunOp(b, s, func() { b.IncrInt64(n) })
	case 1:
		n := vInt64("n")
		vNoWrapAdd(pre.current, n)
		nondecr = n >= 0
		d := time.Duration(vInt64("dur"))
		vRunOp(b, s, func() { b.EwmaIncrInt64(n, d) })
	case 2:
		v := vInt64("v")
		vAssume(v >= 0)
		nondecr = v >= pre.current
		vRunOp(b, s, func() { b.SetCurrent(v) })
	case 3:
		t := vInt64("t")
		c := vBool("complete")
		vRunOp(b, s, func() { b.SetTotal(t, c) })
	case 4:
		vRunOp(b, s, func() { b.EnableTriggerComplete() })
	case 5:
		a := vInt64("amount")
		vRunOp(b, s, func() { b.SetRefill(a) })
	default:
		drop := vBool("drop")
		vRunOp(b, s, func() { b.Abort(drop) })
	}
	vC11Post(pre, s, nondecr, "C11.op")
	vCover("C11.op.reach")
}

// Exit path: the real Bar.serve goroutine on cancellation publishes a state with exactly one terminal flag.
func vhC11Exit() {
	s := vAnyState()
	pre := vSnap(s)
	b := vBarFor(s)
	b.container.bwg.Add(1)
	go b.serve(s)
	b.cancel()
	b.Wait()
	st := b.bs
	vAssert(st == s, "C11.exit.published")
	vAssert(s.aborted != s.completed(), "C11.exit.exactly-one")
	if !pre.completed() && !pre.aborted {
		vAssert(s.aborted, "C11.exit.cancelled-means-aborted")
	}
	if pre.completed() {
		vAssert(s.completed() && !s.aborted, "C11.exit.completed-stable")
	}
	if pre.aborted {
		vAssert(s.aborted && !s.completed(), "C11.exit.aborted-stable")
	}
	// getters after exit read the published state
	vAssert(b.Completed() == s.completed(), "C11.exit.getter-completed")
	vAssert(b.Aborted() == s.aborted, "C11.exit.getter-aborted")
	vAssert(b.Current() == s.current, "C11.exit.getter-current")
	stat := s.newStatistics(80)
	vAssert(stat.Completed == s.completed() && stat.Aborted == s.aborted, "C11.exit.statistics-agree")
	b.container.bwg.Wait()
	vCover("C11.exit.reach")
}
