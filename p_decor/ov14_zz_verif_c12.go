package mpb

import "github.com/vbauerster/mpb/v8/decor"

func vSyncFlags(name string) int {
	f := vInt(name)
	vAssume(f >= 0 && f <= 7)
	return f
}

// C12 (a): the sync table of a bar lists, per side, exactly its synchronised decorators in order.
func vhC12Table() {
	vUnwind(6)
	mk := func(name string) decor.Decorator {
		return decor.Name("x", decor.WC{C: vSyncFlags(name)})
	}
	d0, d1, d2, d3 := mk("c0"), mk("c1"), mk("c2"), mk("c3")
	ps := pState{}
	bs := ps.makeBarState(10, nil, PrependDecorators(d0, d1), AppendDecorators(d2, d3))
	t := bs.wSyncTable()
	isSync := func(d decor.Decorator) bool { _, ok := d.Sync(); return ok }
	ch := func(d decor.Decorator) chan int { c, _ := d.Sync(); return c }
	np, na := 0, 0
	if isSync(d0) {
		vAssert(len(t[0]) > np && t[0][np] == ch(d0), "C12.table.prepend-0")
		np++
	}
	if isSync(d1) {
		vAssert(len(t[0]) > np && t[0][np] == ch(d1), "C12.table.prepend-1")
		np++
	}
	if isSync(d2) {
		vAssert(len(t[1]) > na && t[1][na] == ch(d2), "C12.table.append-0")
		na++
	}
	if isSync(d3) {
		vAssert(len(t[1]) > na && t[1][na] == ch(d3), "C12.table.append-1")
		na++
	}
	vAssert(len(t[0]) == np && len(t[1]) == na, "C12.table.only-synchronised-decorators")
	vCover("C12.table.reach")
}

// C12 (b)+(c): three synchronised decorators in one column, each formatting its own text through the real
// WC.Format while the real distributor serves the column: all get the same width, the maximum needed.
func vhC12Column() {
	var wcs [3]decor.WC
	var need [3]int
	var got [3]int
	var gotStr [3]int
	done := make(chan int)
	column := make([]chan int, 0, 3)
	for i := 0; i < 3; i++ {
		var txt string
		switch i {
		case 0:
			wcs[i] = decor.WC{W: vInt("W0"), C: decor.DSyncWidth + vWCFlags("C0")}
			txt = vText("t0")
		case 1:
			wcs[i] = decor.WC{W: vInt("W1"), C: decor.DSyncWidth + vWCFlags("C1")}
			txt = vText("t1")
		default:
			wcs[i] = decor.WC{W: vInt("W2"), C: decor.DSyncWidth + vWCFlags("C2")}
			txt = vText("t2")
		}
		vAssume(wcs[i].W >= 0 && wcs[i].W <= 100 && vTextWidth(txt) <= 100)
		wcs[i].Init()
		c, _ := wcs[i].Sync()
		column = append(column, c)
		w := vTextWidth(txt)
		if wcs[i].W > w {
			w = wcs[i].W
		} else if wcs[i].C&decor.DextraSpace != 0 {
			w++
		}
		need[i] = w
		i := i
		go func() {
			s, width := wcs[i].Format(txt)
			got[i] = width
			gotStr[i] = vTextWidth(s)
			done <- i
		}()
	}
	drop := make(chan struct{})
	go maxWidthDistributor(column, drop)
	<-done
	<-done
	<-done
	max := need[0]
	if need[1] > max {
		max = need[1]
	}
	if need[2] > max {
		max = need[2]
	}
	for i := 0; i < 3; i++ {
		vAssert(got[i] == max, "C12.column.common-width-is-the-maximum-needed")
		vAssert(gotStr[i] == max, "C12.column.text-padded-to-the-common-width")
	}
	vCover("C12.column.reach")
}
