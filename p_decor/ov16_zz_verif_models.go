package mpb

import (
	"bytes"
	"io"
	"time"
)

// Go-level models of library functions the engine redirects to (contracts are listed in DESIGN.md).
// They are ordinary Go and are also what a native replay links against when it needs them.

// vTickBudget bounds the number of ticks the ticker environment delivers.
var vTickBudget = 40
var vTickerStop chan struct{}

func vmNewTicker(d time.Duration) *time.Ticker {
	c := make(chan time.Time)
	t := &time.Ticker{C: c}
	stop := make(chan struct{})
	vTickerStop = stop
	budget := vTickBudget
	go func() {
		for i := 0; i < budget; i++ {
			select {
			case c <- time.Time{}:
			case <-stop:
				return
			}
		}
	}()
	return t
}

func vmTickerStop(t *time.Ticker) {
	close(vTickerStop)
}

// (*bytes.Buffer).WriteTo: hand the whole content to w in one Write, then reset.
func vmBufferWriteTo(b *bytes.Buffer, w io.Writer) (n int64, err error) {
	if b.Len() > 0 {
		p := b.Bytes()
		b.Reset()
		m, e := w.Write(p)
		n = int64(m)
		if e != nil {
			return n, e
		}
		if m != len(p) {
			return n, io.ErrShortWrite
		}
	}
	return n, nil
}

// fmt.Fprintln: one Write of the operands' text plus a newline.
func vmFprintln(w io.Writer, a ...interface{}) (int, error) {
	s := ""
	for _, x := range a {
		if t, ok := x.(string); ok {
			s += t
		}
	}
	return w.Write([]byte(s + "\n"))
}
