package mpb

import (
	"context"
	"time"
)

// vBarFor builds a real Bar (real channels, real context) around state s without a container.
func vBarFor(s *bState) *Bar {
	p := &Progress{}
	ctx, cancel := context.WithCancel(context.Background())
	return &Bar{
		priority:     s.priority,
		frameCh:      make(chan *renderFrame, 1),
		operateState: make(chan func(*bState)),
		bsOk:         make(chan struct{}),
		container:    p,
		ctx:          ctx,
		cancel:       cancel,
	}
}

// vServe plays the bar goroutine for exactly n operations (the same dispatch as Bar.serve: op(bs)).
func vServe(b *Bar, s *bState, n int, done chan struct{}) {
	for i := 0; i < n; i++ {
		op := <-b.operateState
		op(s)
	}
	close(done)
}

// vRunOp runs one public method call against a bar goroutine stand-in and reports whether the bar was cancelled.
func vRunOp(b *Bar, s *bState, call func()) bool {
	done := make(chan struct{})
	go vServe(b, s, 1, done)
	call()
	<-done
	return !b.IsRunning()
}

type vRef struct {
	total, current, refill int64
	trigger, aborted, rm   bool
}

func vSnap(s *bState) vRef {
	return vRef{s.total, s.current, s.refill, s.triggerComplete, s.aborted, s.rmOnComplete}
}

func (r vRef) completed() bool { return !r.aborted && r.trigger && r.current == r.total }

// vLiveState: an arbitrary state of a bar that has not reached a terminal state, satisfying the
// invariant that once triggering is on current never exceeds total (established by makeBarState and
// preserved by every operation below: checked by the C09.inv.* assertions).
func vLiveState() *bState {
	s := &bState{
		total:           vInt64("s.total"),
		current:         vInt64("s.current"),
		refill:          vInt64("s.refill"),
		triggerComplete: vBool("s.trigger"),
		rmOnComplete:    vBool("s.rm"),
	}
	vAssume(!s.triggerComplete || s.current < s.total)
	return s
}

func vCheck(s *bState, want vRef, cancelled bool, id string) {
	vAssert(s.current == want.current, id+".current")
	vAssert(s.total == want.total, id+".total")
	vAssert(s.refill == want.refill, id+".refill")
	vAssert(s.aborted == want.aborted, id+".aborted")
	vAssert(s.completed() == want.completed(), id+".completed")
	// reaching a terminal state stops the bar (non-refreshing container: cancel is immediate)
	vAssert(cancelled == (want.completed() || want.aborted), id+".terminal-stops-bar")
	// invariant for the next step
	vAssert(!s.triggerComplete || s.current <= s.total, "C09.inv."+id)
}

func vClamp(r vRef) vRef {
	if r.trigger && r.current >= r.total {
		r.current = r.total
	}
	return r
}

func vNoWrapAdd(a, n int64) int64 {
	sum := a + n
	vAssume((n >= 0 && sum >= a) || (n < 0 && sum < a))
	return sum
}

func vhC09Incr() {
	s := vLiveState()
	n := vInt64("n")
	want := vSnap(s)
	want.current = vNoWrapAdd(want.current, n)
	want = vClamp(want)
	b := vBarFor(s)
	kind := vInt("kind")
	vAssume(kind >= 0 && kind <= 2)
	var c bool
	switch kind {
	case 0:
		c = vRunOp(b, s, func() { b.IncrInt64(n) })
	case 1:
		vAssume(n == 1)
		c = vRunOp(b, s, func() { b.Increment() })
	default:
		vAssume(n >= -2147483648 && n <= 2147483647)
		c = vRunOp(b, s, func() { b.IncrBy(int(n)) })
	}
	vCheck(s, want, c, "C09.incr")
	vCover("C09.incr.reach")
}

func vhC09EwmaIncr() {
	s := vLiveState()
	n := vInt64("n")
	d := time.Duration(vInt64("dur"))
	want := vSnap(s)
	want.current = vNoWrapAdd(want.current, n)
	want = vClamp(want)
	b := vBarFor(s)
	kind := vInt("kind")
	vAssume(kind >= 0 && kind <= 2)
	var c bool
	switch kind {
	case 0:
		c = vRunOp(b, s, func() { b.EwmaIncrInt64(n, d) })
	case 1:
		vAssume(n == 1)
		c = vRunOp(b, s, func() { b.EwmaIncrement(d) })
	default:
		vAssume(n >= -2147483648 && n <= 2147483647)
		c = vRunOp(b, s, func() { b.EwmaIncrBy(int(n), d) })
	}
	vCheck(s, want, c, "C09.ewmaincr")
	vCover("C09.ewmaincr.reach")
}

func vhC09SetCurrent() {
	s := vLiveState()
	v := vInt64("v")
	ewma := vBool("ewma")
	want := vSnap(s)
	if v >= 0 {
		want.current = v
		want = vClamp(want)
	}
	b := vBarFor(s)
	var c bool
	if v < 0 {
		// ignored without reaching the bar goroutine
		if ewma {
			b.EwmaSetCurrent(v, time.Duration(vInt64("dur")))
		} else {
			b.SetCurrent(v)
		}
		c = !b.IsRunning()
	} else if ewma {
		d := time.Duration(vInt64("dur"))
		c = vRunOp(b, s, func() { b.EwmaSetCurrent(v, d) })
	} else {
		c = vRunOp(b, s, func() { b.SetCurrent(v) })
	}
	vCheck(s, want, c, "C09.setcurrent")
	vCover("C09.setcurrent.reach")
}

func vhC09SetTotal() {
	s := vLiveState()
	t := vInt64("t")
	complete := vBool("complete")
	want := vSnap(s)
	if !want.trigger {
		if t < 0 {
			want.total = want.current
		} else {
			want.total = t
		}
		if complete {
			want.current = want.total
			want.trigger = true
		}
	}
	b := vBarFor(s)
	c := vRunOp(b, s, func() { b.SetTotal(t, complete) })
	vCheck(s, want, c, "C09.settotal")
	vCover("C09.settotal.reach")
}

func vhC09EnableTrigger() {
	s := vLiveState()
	want := vSnap(s)
	if !want.trigger {
		want.trigger = true
		if want.current >= want.total {
			want.current = want.total
		}
	}
	b := vBarFor(s)
	c := vRunOp(b, s, func() { b.EnableTriggerComplete() })
	vCheck(s, want, c, "C09.enabletrigger")
	vAssert(s.triggerComplete, "C09.enabletrigger.flag")
	vCover("C09.enabletrigger.reach")
}

func vhC09SetRefill() {
	s := vLiveState()
	a := vInt64("amount")
	want := vSnap(s)
	if a < want.current {
		want.refill = a
	} else {
		want.refill = want.current
	}
	b := vBarFor(s)
	c := vRunOp(b, s, func() { b.SetRefill(a) })
	vCheck(s, want, c, "C09.setrefill")
	vAssert(s.refill <= s.current, "C09.setrefill.capped")
	vCover("C09.setrefill.reach")
}

func vhC09Abort() {
	s := vLiveState()
	drop := vBool("drop")
	pre := vSnap(s)
	b := vBarFor(s)
	c := vRunOp(b, s, func() { b.Abort(drop) })
	vAssert(s.aborted, "C09.abort.aborted")
	vAssert(c, "C09.abort.stops-bar")
	vAssert(s.current == pre.current && s.total == pre.total && s.refill == pre.refill, "C09.abort.counters-unchanged")
	vAssert(s.rmOnComplete == drop, "C09.abort.drop")
	if pre.current == pre.total {
		// live state with current==total means triggering was off
		vAssert(!s.completed(), "C09.abort.at-total.not-completed")
	} else {
		vAssert(!s.completed(), "C09.abort.not-completed")
	}
	vCover("C09.abort.reach")
}

// Abort on a completed bar has no effect.
func vhC09AbortCompleted() {
	s := &bState{total: vInt64("s.total"), refill: vInt64("s.refill"), triggerComplete: true, rmOnComplete: vBool("s.rm")}
	s.current = s.total
	drop := vBool("drop")
	pre := vSnap(s)
	b := vBarFor(s)
	c := vRunOp(b, s, func() { b.Abort(drop) })
	vAssert(!s.aborted && s.completed(), "C09.abort-completed.noeffect")
	vAssert(vSnap(s) == pre, "C09.abort-completed.state-unchanged")
	vAssert(!c, "C09.abort-completed.no-second-cancel")
	vCover("C09.abort-completed.reach")
}

// Getters return the state's values; one step through the real select/dispatch.
func vhC09Getters() {
	s := vLiveState()
	s.aborted = false
	b := vBarFor(s)
	var cur int64
	var comp, ab bool
	which := vInt("which")
	vAssume(which >= 0 && which <= 2)
	switch which {
	case 0:
		vRunOp(b, s, func() { cur = b.Current() })
		vAssert(cur == s.current, "C09.get.current")
	case 1:
		vRunOp(b, s, func() { comp = b.Completed() })
		vAssert(comp == (s.triggerComplete && s.current == s.total), "C09.get.completed")
	default:
		vRunOp(b, s, func() { ab = b.Aborted() })
		vAssert(ab == s.aborted, "C09.get.aborted")
	}
	vCover("C09.get.reach")
}

// Base case: the state a new bar starts from.
func vhC09Base() {
	total := vInt64("total")
	ps := pState{idCount: vInt("id")}
	bs := ps.makeBarState(total, nil)
	vAssert(bs.total == total && bs.current == 0 && bs.refill == 0 && !bs.aborted, "C09.base.zero")
	vAssert(bs.triggerComplete == (total > 0), "C09.base.trigger")
	vAssert(!bs.triggerComplete || bs.current < bs.total, "C09.base.invariant")
	vAssert(!bs.completed(), "C09.base.not-completed")
	vCover("C09.base.reach")
}
