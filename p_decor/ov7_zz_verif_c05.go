package mpb

// C05 at the heap manager: one ordered iteration delivers every bar exactly once; when the consumer
// abandons the cycle (drop) the undelivered bars stay in the heap; nothing is lost or duplicated.
func vhC05Iter1() { vC05Iter(1) }
func vhC05Iter2() { vC05Iter(2) }
func vhC05Iter3() { vC05Iter(3) }
func vhC05Iter4() { vC05Iter(4) }

func vC05Iter(n int) {
	vUnwind(8)
	bars := vBars4()
	m := newHeapManager(8)
	go m.run()
	for i := 0; i < n; i++ {
		m.push(bars[i], false)
	}
	drop := make(chan struct{})
	iter, iterPop := make(chan *Bar), make(chan *Bar)
	m.iter(drop, iter, iterPop)
	seen := 0
	for range iter {
		seen++
	}
	vAssert(seen == n, "C05.iter.unordered-pass-visits-every-bar")
	// the consumer takes k bars from the ordered pass, then abandons it (k == n: takes all)
	k := vInt("takes")
	vAssume(k >= 0 && k <= n)
	var got [4]bool
	delivered := 0
	for delivered < k {
		b, ok := <-iterPop
		vAssert(ok, "C05.iter.ordered-pass-has-a-bar-for-every-member")
		for j := 0; j < 4; j++ {
			if bars[j] == b {
				vAssert(!got[j], "C05.iter.no-bar-delivered-twice")
				got[j] = true
			}
		}
		delivered++
	}
	if k < n {
		close(drop)
	} else {
		_, ok := <-iterPop
		vAssert(!ok, "C05.iter.closed-after-last-bar")
	}
	// what is left in the heap is exactly the bars not delivered
	ch := make(chan interface{}, 1)
	m.end(ch)
	rest := (<-ch).([]*Bar)
	vAssert(len(rest) == n-k, "C05.iter.undelivered-bars-stay-in-the-heap")
	for _, b := range rest {
		for j := 0; j < 4; j++ {
			if bars[j] == b {
				vAssert(!got[j], "C05.iter.remaining-bar-was-not-delivered")
				got[j] = true
			}
		}
	}
	for j := 0; j < 4; j++ {
		vAssert(got[j] == (j < n), "C05.iter.delivered-plus-remaining-is-everything")
	}
	vCover("C05.iter.reach")
}
