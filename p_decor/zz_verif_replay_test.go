package decor

import (
	"fmt"
	"os"
	"runtime"
	"sync/atomic"
	"testing"
	"time"
)

func vReplayCase(i int, model map[string]int64, f func(), repeat int, class, id string) {
	start := time.Now()
	for r := 0; r < repeat; r++ {
		// odd attempts perturb the schedule (see vJit); the instrumented statements are otherwise inert
		if r%2 == 1 {
			atomic.StoreUint64(&vJitState, uint64(r)*7919)
			atomic.StoreUint32(&vJitOn, 1)
		}
		vTextShape = r % 3
		last := r == repeat-1 || time.Since(start) > 45*time.Second
		stop := vReplayOnce(i, model, f, last, class, id)
		atomic.StoreUint32(&vJitOn, 0)
		if stop || last {
			return
		}
	}
}

// vReplayOnce runs the harness once; it reports (and returns true) when something went wrong or on the last try.
func vReplayOnce(i int, model map[string]int64, f func(), last bool, class, id string) bool {
	vModel = model
	vFailures = nil
	vCovered = map[string]bool{}
	vGhost = map[string][]int64{}
	vGhostF = map[string][]float64{}
	done := make(chan string, 1)
	base := runtime.NumGoroutine()
	go func() {
		defer func() {
			if r := recover(); r != nil {
				if _, ok := r.(vAssumeFailed); ok {
					done <- "ASSUME-FAILED"
					return
				}
				done <- fmt.Sprintf("PANIC %v", r)
				return
			}
		}()
		f()
		done <- "RETURNED"
	}()
	end := ""
	select {
	case r := <-done:
		end = r
	case <-time.After(5 * time.Second):
		end = "HANG"
	}
	leaked := 0
	if end == "RETURNED" {
		// goroutines started during the run must be gone shortly after it returned
		for w := 0; w < 60 && runtime.NumGoroutine() > base; w++ {
			time.Sleep(5 * time.Millisecond)
		}
		if n := runtime.NumGoroutine(); n > base {
			leaked = n - base
		}
	}
	// keep trying until the outcome the solver predicted shows up (other failures do not end the search)
	bad := false
	switch class {
	case "assert":
		for _, f := range vFailures {
			if f == id {
				bad = true
			}
		}
	case "panic":
		bad = len(end) >= 5 && end[:5] == "PANIC"
	case "deadlock", "unwind":
		bad = end == "HANG"
	case "leak":
		bad = leaked > 0 || end == "HANG"
	default:
		bad = end != "RETURNED" || len(vFailures) > 0 || leaked > 0
	}
	if !bad && !last {
		return false
	}
	fmt.Fprintf(os.Stderr, "VREPLAY-CASE %d END %s\n", i, end)
	if leaked > 0 {
		fmt.Fprintf(os.Stderr, "VREPLAY-CASE %d LEAK %d\n", i, leaked)
	}
	for _, f := range vFailures {
		fmt.Fprintf(os.Stderr, "VREPLAY-CASE %d FAIL %s\n", i, f)
	}
	for c := range vCovered {
		fmt.Fprintf(os.Stderr, "VREPLAY-CASE %d COVER %s\n", i, c)
	}
	return true
}

func TestVReplay(t *testing.T) {
	vReplayCase(0, map[string]int64{"hasPrec": 0, "prec": 0, "size": 9007199254740994, "spaceFlag": 0, "verb": 9, }, vhC20Size1024, 1, "cover", "C20.size1024.reach")
	vReplayCase(1, map[string]int64{"hasPrec": 0, "prec": 0, "size": 999, "spaceFlag": 1, "verb": 8, }, vhC20Size1000, 1, "cover", "C20.size1000.reach")
	vReplayCase(2, map[string]int64{}, vhC20UnitNames, 1, "cover", "C20.units.reach")
	vReplayCase(3, map[string]int64{"current": 0, "hasPrec": 0, "prec": 0, "spaceFlag": 0, "sprintf.literal.id": 2199023255552, "sprintf.literal.n": 1, "sprintf.literal.w": 1, "total": 1, "verb": 7, }, vhC20Percentage, 1, "cover", "C20.percentage.reach")
	vReplayCase(4, map[string]int64{"dur": 212399999999999, "sprintf.int.id": 2199023255552, "sprintf.int.n": 1, "sprintf.int.w": 1, "sprintf.literal.id": 2199023255552, "sprintf.literal.n": 1, "sprintf.literal.w": 1, "style": 2, }, vhC20TimeProducer, 1, "cover", "C20.time.reach")
	vReplayCase(5, map[string]int64{"dur": 0, "n": -1, "zDur": 0, }, vhC20EtaUpdate, 1, "cover", "C20.eta.reach")
	vReplayCase(6, map[string]int64{"dur": 0, "n": -1, "zDur": 0, }, vhC20SpeedUpdate, 1, "cover", "C20.speed.reach")
	vReplayCase(7, map[string]int64{"avgNanos": 1, "current": 0, "sprintf.int.id": 2199023255552, "sprintf.int.n": 1, "sprintf.int.w": 1, "sprintf.literal.id": 2199023255552, "sprintf.literal.n": 1, "sprintf.literal.w": 1, "total": 1, }, vhC20EtaDecor, 1, "cover", "C20.etadecor.reach")
	vReplayCase(8, map[string]int64{"current": 0, "sprintf.float.id": 2199023255552, "sprintf.float.n": 1, "sprintf.float.w": 1, "sprintf.literal.id": 2199023255552, "sprintf.literal.n": 1, "sprintf.literal.w": 1, }, vhC20Frozen, 1, "cover", "C20.frozen.reach")
	vReplayCase(9, map[string]int64{"current1": 1, "current2": 2, "hasPrec": 0, "prec": 0, "spaceFlag": 0, "sprintf.literal.id": 2199023255552, "sprintf.literal.n": 1, "sprintf.literal.w": 1, "total1": 5, "total2": 104, "verb": 6, }, vhC20PercentageTwice, 1, "cover", "C20.percentage2.reach")
}
