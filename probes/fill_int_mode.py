import sys, time
from z3 import *
W=int(sys.argv[1]); ASSUME_TIP = len(sys.argv)>2
total,current,refill = Ints('total current refill')
avail,req,lw,rw,fw,rfw,pw,tipw = Ints('avail req lw rw fw rfw pw tipw')
completed, tipOn = Bools('completed tipOn')
s=Solver()
I64=2**63
s.add(total>=-I64,total<I64,current>=-I64,current<I64,refill>=-I64,refill<I64)
s.add(avail>=0,avail<=W, req>=-2, req<=W+2)
for v in (lw,rw): s.add(v>=0,v<=2)
for v in (fw,rfw,pw,tipw): s.add(v>=1,v<=2)
u = RealVal(1)/RealVal(2**53)
def pround(tot,cur,width,tag):
    # returns Int r abstracting int(math.Round(Percentage(uint(tot),uint(cur),uint(width))))
    r = Int('r_'+tag); fa=Real('fa_'+tag); fb=Real('fb_'+tag); q=Real('q_'+tag)
    prod = width*cur
    s.add(Implies(And(tot>0,cur>=0,cur<tot, prod < 2**64),
        And(ToReal(prod)*(1-u)<=fa, fa<=ToReal(prod)*(1+u), ToReal(tot)*(1-u)<=fb, fb<=ToReal(tot)*(1+u),
            fa*(1-u)<=q*fb, q*fb<=fa*(1+u), q-0.5<=ToReal(r), ToReal(r)<=q+0.5)))
    return If(Or(tot<0,cur<0), 0, If(tot==0, 0, If(cur>=tot, width, r)))
width0 = If(Or(req<1, req>avail), avail, req)
width = width0-(lw+rw)
cw0 = pround(total,current,width,'c')
s.add(Implies(And(total>0,current>=0,current<total), width*current < 2**64))   # no-wrap region (wrap is a separate obligation)
useTip = And(cw0!=0, Or(Not(completed), tipOn))
fill = If(useTip, tipw, 0)
refW0 = pround(total,refill,width,'r')
s.add(Implies(And(total>0,refill>=0,refill<total), width*refill < 2**64))
hasRef = refill!=0
curW = If(hasRef, cw0-refW0, cw0)
refW = If(hasRef, refW0+curW, 0)
def loop(limit, w, fc, enabled):
    n=0
    for i in range(W+1):
        c = And(enabled, limit-fc>=w)
        fc = If(c, fc+w, fc)
    unw = And(enabled, limit-fc>=w)
    return fc, unw
en = cw0!=0
fc,u1 = loop(curW, fw, fill, en)
fc,u2 = loop(refW, rfw, fc, en)
fc,u3 = loop(width, pw, fc, BoolVal(True))
fc,u4 = loop(width, IntVal(1), fc, BoolVal(True))
s.add(width>0)
if ASSUME_TIP: s.add(Implies(useTip, tipw<=cw0))
s.push(); s.add(Or(u1,u2,u3,u4)); t=time.time(); print('unwinding:', s.check(), round(time.time()-t,1)); s.pop()
s.push(); s.add(fc!=width); t=time.time(); r=s.check(); print('exact-fill:', r, round(time.time()-t,1))
if r==sat:
    m=s.model(); print({str(d):m[d] for d in m.decls() if str(d) in ('total','current','refill','avail','req','lw','rw','fw','rfw','pw','tipw','completed','tipOn','r_c','r_r')})
s.pop()
