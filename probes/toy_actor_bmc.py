#!/usr/bin/env python3
"""Feasibility probe (not framework code): how does z3 scale on an interleaving BMC of an
mpb-shaped actor system (rendezvous channels, select, dynamic-ish message kinds)?
Processes are extended automata; one global step = one internal move or one rendezvous.
Query: deadlock (nobody enabled, client not finished) within K steps  -> expect unsat."""
import sys, time
from z3 import *
def BV8(n): return BitVec(n,8)
def BVV(v): return BitVecVal(v,8)


NB = int(sys.argv[1]) if len(sys.argv) > 1 else 1     # bars
K = int(sys.argv[2]) if len(sys.argv) > 2 else 40     # depth
BUG = len(sys.argv) > 3 and sys.argv[3] == 'bug'

# ---- model description -------------------------------------------------------
# state variables (all small ints)
procs = ['client', 'cont', 'hm', 'lis'] + [f'bar{i}' for i in range(NB)] + [f'er{i}' for i in range(NB)]
gvars = ['ticks', 'heap', 'ctx', 'done', 'bwg', 'pwg', 'added', 'it', 'fl', 'nshut', 'pend'] + \
        [f'compl{i}' for i in range(NB)] + [f'shut{i}' for i in range(NB)] + [f'bctx{i}' for i in range(NB)] + \
        [f'inheap{i}' for i in range(NB)] + [f'q{i}' for i in range(NB)]
END = 99
# transitions: (proc, from_pc, kind, chan, msg, guard(s), update(s)->dict, to_pc)
# kind in {'int','send','recv'}; rendezvous pairs send/recv on same chan; recv guard may inspect msg
T = []
def tr(p, f, kind, to, chan=None, msg=None, guard=None, upd=None):
    T.append(dict(p=p, f=f, kind=kind, to=to, chan=chan, msg=msg, guard=guard, upd=upd))

# client: add all bars, incr each bar to completion, wait bwg, cancel, wait pwg
pc = 0
for i in range(NB):
    tr('client', pc, 'send', pc + 1, chan='opC', msg=10 + i); pc += 1      # Add(i)
    tr('client', pc, 'recv', pc + 1, chan='chAdd'); pc += 1
for i in range(NB):
    tr('client', pc, 'send', pc + 1, chan=f'opB{i}', msg=1); pc += 1       # incr -> complete
tr('client', pc, 'int', pc + 1, guard=lambda s: s['bwg'] == 0); pc += 1
tr('client', pc, 'int', pc + 1, upd=lambda s: {'ctx': BVV(1)}); pc += 1
tr('client', pc, 'int', END, guard=lambda s: s['pwg'] == 0)

# listener: tick -> renderReq ; ctx -> close(done)
import os
MAXT=int(os.environ.get('MAXT','3'))
tr('lis', 0, 'send', 0, chan='renderReq', msg=0, guard=lambda s: And(s['ctx'] == 0, s['ticks'] < MAXT), upd=lambda s: {'ticks': s['ticks']+1})
tr('lis', 0, 'int', END, guard=lambda s: s['ctx'] == 1, upd=lambda s: {'done': BVV(1)})

# container
tr('cont', 0, 'recv', 1, chan='opC', upd=lambda s, m: {'pend': m - 10})
tr('cont', 1, 'int', 2, upd=lambda s: dict([('bwg', s['bwg'] + 1)] + [(f'q{i}', If(s['pend']==i, BVV(1), s[f'q{i}'])) for i in range(NB)]))
tr('cont', 2, 'send', 0, chan='chAdd', msg=0)
tr('cont', 0, 'recv', 3, chan='renderReq')
tr('cont', 3, 'send', 4, chan='hm', msg=2)                                   # iter
# flush loop: recv bar id from iterCh (msg = id, or -1 = closed)
tr('cont', 4, 'recv', 5, chan='iterCh', upd=lambda s, m: {'it': m})
tr('cont', 5, 'int', 0, guard=lambda s: s['it'] == -1)
for i in range(NB):
    tr('cont', 5, 'send', 6, chan=f'opB{i}', msg=2, guard=lambda s, i=i: And(s['it'] == i, s[f'bctx{i}'] == 0))   # render req to live bar
    tr('cont', 5, 'int', 6, guard=lambda s, i=i: And(s['it'] == i, s[f'bctx{i}'] == 1),
       upd=lambda s, i=i: {'fl': s[f'shut{i}'], f'shut{i}': s[f'shut{i}'] + 1})                           # exited bar rendered in place
tr('cont', 6, 'recv', 7, chan='frameCh', guard=lambda s: Or(*[And(s['it'] == i, s[f'bctx{i}'] == 0) for i in range(NB)]),
   upd=lambda s, m: {'fl': m})
tr('cont', 6, 'int', 7, guard=lambda s: Or(*[And(s['it'] == i, s[f'bctx{i}'] == 1) for i in range(NB)]))
for i in range(NB):
    # shutdown==1 -> cancel bar; push back always
    tr('cont', 7, 'int', 4, guard=lambda s, i=i: s['it'] == i,
       upd=lambda s, i=i: {f'q{i}': BVV(1), f'bctx{i}': If(s['fl'] == 1, BVV(1), s[f'bctx{i}'])})
tr('cont', 0, 'int', 8, guard=lambda s: s['done'] == 1)
tr('cont', 8, 'send', 9, chan='hm', msg=3)                                   # end
tr('cont', 9, 'int', END, upd=lambda s: {'pwg': BVV(0)})

# heap manager
for i in range(NB):
    tr('hm', 0, 'int', 0, guard=lambda s, i=i: s[f'q{i}'] == 1, upd=lambda s, i=i: {f'q{i}': BVV(0), f'inheap{i}': BVV(1)})
tr('hm', 0, 'recv', 1, chan='hm', guard=lambda s, m: And(m == 2, *[s[f'q{j}'] == 0 for j in range(NB)]))
for i in range(NB):
    tr('hm', 1, 'send', 1, chan='iterCh', msg=i, guard=lambda s, i=i: And(s[f'inheap{i}'] == 1, *[s[f'inheap{j}'] == 0 for j in range(i)]),
       upd=lambda s, i=i: {f'inheap{i}': BVV(0)})
tr('hm', 1, 'send', 0, chan='iterCh', msg=-1, guard=lambda s: And(*[s[f'inheap{j}'] == 0 for j in range(NB)]))
tr('hm', 0, 'recv', END, chan='hm', guard=lambda s, m: And(m == 3, *[s[f'q{j}'] == 0 for j in range(NB)]))

# bars
for i in range(NB):
    b = f'bar{i}'
    tr(b, 0, 'recv', 0, chan=f'opB{i}', guard=lambda s, m: m == 1, upd=lambda s, m, i=i: {f'compl{i}': BVV(1)})
    tr(b, 0, 'recv', 1, chan=f'opB{i}', guard=lambda s, m: m == 2)
    tr(b, 1, 'send', 0, chan='frameCh', msg=lambda s, i=i: If(s[f'compl{i}'] == 1, s[f'shut{i}'], BVV(-5)),
       upd=lambda s, i=i: {f'shut{i}': If(s[f'compl{i}'] == 1, s[f'shut{i}'] + 1, s[f'shut{i}'])})
    if BUG:   # bug: bar exits without releasing the wait group when cancelled while others... (just drop Done)
        tr(b, 0, 'int', END, guard=lambda s, i=i: Or(s[f'bctx{i}'] == 1, s['ctx'] == 1), upd=lambda s, i=i: {f'bctx{i}': BVV(1)})
    else:
        tr(b, 0, 'int', END, guard=lambda s, i=i: Or(s[f'bctx{i}'] == 1, s['ctx'] == 1),
           upd=lambda s, i=i: {'bwg': s['bwg'] - 1, f'bctx{i}': BVV(1)})

for i in range(NB):
    e=f'er{i}'
    tr(e, 0, 'int', 1, guard=lambda s, i=i: s[f'compl{i}'] == 1)
    tr(e, 1, 'send', 1, chan='renderReq', msg=0, guard=lambda s, i=i: s[f'bctx{i}'] == 0)
    tr(e, 1, 'int', END, guard=lambda s, i=i: s[f'bctx{i}'] == 1)
# ---- unrolling ---------------------------------------------------------------
def call(f, *a):
    return f(*a)

def mk_state(k):
    s = {v: BV8(f'{v}_{k}') for v in gvars}
    for p in procs:
        s['pc_' + p] = BV8(f'pc_{p}_{k}')
    return s

def moves(s):
    """list of (enabled_cond, update_dict) for every internal move and rendezvous pair in state s"""
    out = []
    for t in T:
        if t['kind'] == 'int':
            g = s['pc_' + t['p']] == t['f']
            if t['guard']: g = And(g, t['guard'](s))
            u = dict(t['upd'](s)) if t['upd'] else {}
            u['pc_' + t['p']] = BVV(t['to'])
            out.append((g, u, f"{t['p']}:{t['f']}->{t['to']}"))
    for a in T:
        if a['kind'] != 'send': continue
        for b in T:
            if b['kind'] != 'recv' or b['chan'] != a['chan'] or a['p'] == b['p']: continue
            m = a['msg'](s) if callable(a['msg']) else BVV(a['msg'])
            g = And(s['pc_' + a['p']] == a['f'], s['pc_' + b['p']] == b['f'])
            if a['guard']: g = And(g, a['guard'](s))
            if b['guard']:
                g = And(g, b['guard'](s, m) if b['guard'].__code__.co_argcount >= 2 and 'm' in b['guard'].__code__.co_varnames[:2] else b['guard'](s))
            u = {}
            if a['upd']: u.update(a['upd'](s))
            if b['upd']: u.update(b['upd'](s, m))
            u['pc_' + a['p']] = BVV(a['to']); u['pc_' + b['p']] = BVV(b['to'])
            out.append((g, u, f"{a['p']}:{a['f']}!{a['chan']} {b['p']}:{b['f']}?"))
    return out


class Tr(dict):
    def __init__(self, base): super().__init__(base); self.reads=set()
    def __getitem__(self,k): self.reads.add(k); return dict.__getitem__(self,k)

def footprints(s):
    """returns list of (procs, reads, writes) aligned with moves(s)"""
    fps=[]
    for t in T:
        if t['kind']=='int':
            ts=Tr(s)
            if t['guard']: t['guard'](ts)
            u=dict(t['upd'](ts)) if t['upd'] else {}
            fps.append(({t['p']}, set(ts.reads)|{'pc_'+t['p']}, set(u.keys())|{'pc_'+t['p']}))
    for a in T:
        if a['kind']!='send': continue
        for b in T:
            if b['kind']!='recv' or b['chan']!=a['chan'] or a['p']==b['p']: continue
            ts=Tr(s)
            m = a['msg'](ts) if callable(a['msg']) else IntVal(0)
            if a['guard']: a['guard'](ts)
            if b['guard']:
                (b['guard'](ts,m) if b['guard'].__code__.co_argcount>=2 and 'm' in b['guard'].__code__.co_varnames[:2] else b['guard'](ts))
            u={}
            if a['upd']: u.update(a['upd'](ts))
            if b['upd']: u.update(b['upd'](ts,m))
            pcs={'pc_'+a['p'],'pc_'+b['p']}
            fps.append(({a['p'],b['p']}, set(ts.reads)|pcs, set(u.keys())|pcs))
    return fps

def main():
    sol = Then('simplify','solve-eqs','bit-blast','sat').solver()
    S = [mk_state(k) for k in range(K + 1)]
    s0 = S[0]
    for v in gvars:
        if v != 'pwg': sol.add(s0[v] == 0)
    sol.add(s0['pwg'] == 1)
    for p in procs: sol.add(s0['pc_' + p] == 0)
    dead = []
    nm = 0
    for k in range(K):
        s, n = S[k], S[k + 1]
        mv = moves(s); nm = len(mv)
        c = BitVec(f'c_{k}',8)
        sol.add(c >= -1, c < len(mv))
        any_en = Or(*[g for g, _, _ in mv])
        finished = s['pc_client'] == END
        # stutter (c=-1) only allowed when nothing enabled or finished
        sol.add(Implies(c == -1, Or(Not(any_en), finished)))
        for idx, (g, u, _) in enumerate(mv):
            eff = And(g, *[n[x] == u.get(x, s[x]) for x in n])
            sol.add(Implies(c == idx, eff))
        sol.add(Implies(c == -1, And(*[n[x] == s[x] for x in n])))
        dead.append(And(Not(any_en), Not(finished)))
        import os
        if os.environ.get('POR') and k>0:
            fps=footprints(s)
            cp=BitVec(f'c_{k-1}',8)
            for i,(pi,ri,wi) in enumerate(fps):
                for j,(pj,rj,wj) in enumerate(fps):
                    if j<i and not (pi&pj) and not (wi&(rj|wj)) and not (wj&(ri|wi)):
                        sol.add(Not(And(cp==i, c==j)))
    import os
    if os.environ.get('REACH'): sol.add(Or(*[S[k]['pc_client']==END for k in range(K+1)]))
    else:
        ks=os.environ.get('ONLYK')
        sol.add(dead[int(ks)] if ks else Or(*dead))
    t = time.time(); r = sol.check(); dt = time.time() - t
    print(f'NB={NB} K={K} moves/step={nm} result={r} time={dt:.1f}s')
    if r == sat:
        m = sol.model(); mv = moves(S[0])
        tr_ = []
        for k in range(K):
            ci = m[BitVec(f'c_{k}',8)].as_long()
            tr_.append('stutter' if ci < 0 else (mv[ci][2] if ci < len(mv) else f'?{ci}'))
            if ci < 0: break
        print(' -> '.join(tr_))

main()
