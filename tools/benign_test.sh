#!/bin/bash
# usage: benign_test.sh <area> <k>  -- apply property-preserving change k of area to its worktree, run every quick check there
a=$1; k=$2
wt=/tmp/benign/$a
src=/tmp/benign/_out/$a
if [ -d $wt/out ]; then mkdir -p $src; cp -r $wt/out/* $src/; rm -rf $wt/out; fi
git -C $wt checkout -q -- . ; git -C $wt clean -qfd
git -C $wt apply $src/$k/patch.diff || { echo "B$a.$k PATCH-FAILS"; exit 3; }
mkdir -p /tmp/benign/_log
for q in C01 C02 C03 C04 C05 C06 C07 C08 C09 C10 C11 C12 C13 C14 C15 C16 C17 C18 C19 C20; do echo $q; done | xargs -P 4 -I{} bash -c "VCHECK_REPO=$wt timeout 1800 /verif/bin/vcheck {} --tier quick --no-evidence > /tmp/benign/_log/B$a.$k.{}.txt 2>&1; echo \"B$a.$k {} exit=\$?\"" | grep -v "exit=0" 
echo "B$a.$k done"
git -C $wt checkout -q -- .
