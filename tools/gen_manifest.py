#!/usr/bin/env python3
"""Regenerate /verif/MANIFEST.json from harness/registry.json and tools/claims.json."""
import json
props=[json.loads(l) for l in open('/verif/properties.jsonl')]
reg=json.load(open('/verif/harness/registry.json'))
claims=json.load(open('/verif/tools/claims.json'))
have={r['property'] for r in reg}
GEN_NOTE='bounded: data bounds, loop unwinding, move bound, scenario parameters and policies/windows are listed per harness in the evidence file; schedules outside the policies, windows and symbolic-schedule harnesses are outside the claim; byte contents of texts are abstracted (display width, length, newlines, cursor-up count, identity, order marks). trusted: gosmt (SSA semantics, heap/channel/select/WaitGroup/context/ticker models, happens-before race detection along explored schedules), library contracts listed in the evidence, z3/cvc5'

checks=[]; na=[]
for p in props:
    pid=p['id']
    c=claims.get(pid,{})
    if pid in have and c.get('claim',True):
        facets=sorted({r['name'] for r in reg if r['property']==pid})
        mine=[r for r in reg if r['property']==pid]
        tierA=sorted({r['name'] for r in mine if not r['func'].startswith('vs') and not r.get('symbolic') and not r.get('sym_to')})
        symb=sorted({r['name'] for r in mine if not r['func'].startswith('vs') and (r.get('symbolic') or r.get('sym_to'))})
        tierB=sorted({r['name'] for r in mine if r['func'].startswith('vs')})
        parts=['bounded symbolic execution of the real code of /repo (go/ssa -> SMT-LIB, z3/cvc5); every obligation (assert, panic, deadlock, unwind, leak, race, wrap) is a solver query over all symbolic inputs within the stated bounds, every counterexample is replayed natively before it is reported.']
        if tierA: parts.append('One-operation harnesses from an arbitrary symbolic state (data exhaustively within bounds): '+', '.join(tierA)+'.')
        if symb: parts.append('Concurrent component harnesses in which the scheduler choice of every move (or of every move in the critical window) is a solver variable: '+', '.join(symb)+'.')
        if tierB: parts.append('Closed scenarios over the whole goroutine system of the library with concrete parameters, run under seven deterministic fair scheduling policies in the quick tier (one schedule each; the solver decides the data obligations and the deadlock/leak/race obligations of that schedule) and additionally with solver-chosen schedules inside sliding windows in the thorough tier: '+', '.join(tierB)+'.')
        gen_text=' '.join(parts)
        checks.append({
          "property_id":pid,
          "quick_cmd":"/verif/bin/vcheck %s --tier quick"%pid,
          "thorough_cmd":"/verif/bin/vcheck %s --tier thorough"%pid,
          "evidence_file":"/verif/evidence/%s.json"%pid,
          "replay_cmd_template":"/verif/bin/vcheck replay {path}",
          "engine":"gosmt",
          "level_claimed":{"category":"model_checking","text":gen_text,"design_ref":c.get('design_ref','DESIGN.md section 5')},
          "level_note":GEN_NOTE if True else c.get('note','trusted: gosmt (SSA semantics, heap and concurrency model), library contracts listed in the evidence file, z3/cvc5; bounds per harness are in the evidence file'),
          "technique":c.get('technique','SMT-based bounded symbolic execution of Go SSA (solver verdict per obligation, counterexamples replayed natively)')})
    else:
        na.append({"property_id":pid,"reason":c.get('na_reason','no check registered yet for this property (machinery under construction; see DESIGN.md section 9)')})
m={"version":1,
 "setup_cmd":"cd /verif/engine && GOFLAGS=-mod=mod GOPROXY=off GOSUMDB=off GOTOOLCHAIN=local go build -o /verif/bin/vcheck ./cmd/vcheck",
 "hooks":{"guard":"verif","enable":"no source hooks: harness files are injected into the packages of /repo as go/packages overlays (symbolic run) and go test -overlay (native replay); nothing is written into /repo","baseline_off_cmd":"cd /repo && go test -vet=off -count=1 ./...","source_commits":[],"add_only":True},
 "engines":[{"name":"gosmt","path":"/verif/engine","serves_properties":sorted(have),"kind_free_text":"home-made symbolic executor for Go SSA (golang.org/x/tools/go/ssa v0.29.0): guarded merging of paths, goroutines/channels with the scheduler choice as a solver variable, SMT-LIB2 for z3 5.1/4.8 and cvc5"}],
 "checks":checks,
 "notes":"Every check reloads /repo's current working tree through go/packages with the harness overlay, re-encodes, and asks the solver; exit 0 held / 1 VIOLATION (replayed natively) / 2 inconclusive.",
 "not_applicable":na}
json.dump(m,open('/verif/MANIFEST.json','w'),indent=1)
print(len(checks),'checks,',len(na),'not applicable')
