#!/usr/bin/env python3
"""Regenerate /verif/MANIFEST.json from harness/registry.json and tools/claims.json."""
import json
props=[json.loads(l) for l in open('/verif/properties.jsonl')]
reg=json.load(open('/verif/harness/registry.json'))
claims=json.load(open('/verif/tools/claims.json'))
have={r['property'] for r in reg}
checks=[]; na=[]
for p in props:
    pid=p['id']
    c=claims.get(pid,{})
    if pid in have and c.get('claim',True):
        facets=sorted({r['name'] for r in reg if r['property']==pid})
        checks.append({
          "property_id":pid,
          "quick_cmd":"/verif/bin/vcheck %s --tier quick"%pid,
          "thorough_cmd":"/verif/bin/vcheck %s --tier thorough"%pid,
          "evidence_file":"/verif/evidence/%s.json"%pid,
          "replay_cmd_template":"/verif/bin/vcheck replay {path}",
          "engine":"gosmt",
          "level_claimed":{"category":"model_checking","text":c.get('text','bounded symbolic execution of the real functions (go/ssa -> SMT): every obligation is an SMT query over all inputs within the stated bounds; harnesses: '+', '.join(facets)),"design_ref":c.get('design_ref','DESIGN.md section 5')},
          "level_note":c.get('note','trusted: gosmt (SSA semantics, heap and concurrency model), library contracts listed in the evidence file, z3/cvc5; bounds per harness are in the evidence file'),
          "technique":c.get('technique','SMT-based bounded symbolic execution of Go SSA (solver verdict per obligation, counterexamples replayed natively)')})
    else:
        na.append({"property_id":pid,"reason":c.get('na_reason','no check registered yet for this property (machinery under construction; see DESIGN.md section 9)')})
m={"version":1,
 "setup_cmd":"cd /verif/engine && GOFLAGS=-mod=mod GOPROXY=off GOSUMDB=off GOTOOLCHAIN=local go build -o /verif/bin/vcheck ./cmd/vcheck",
 "hooks":{"guard":"verif","enable":"no source hooks: harness files are injected into the packages of /repo as go/packages overlays (symbolic run) and go test -overlay (native replay); nothing is written into /repo","baseline_off_cmd":"cd /repo && go test -vet=off -count=1 ./...","source_commits":[],"add_only":True},
 "engines":[{"name":"gosmt","path":"/verif/engine","serves_properties":sorted(have),"kind_free_text":"home-made symbolic executor for Go SSA (golang.org/x/tools/go/ssa v0.29.0): guarded merging of paths, goroutines/channels with the scheduler choice as a solver variable, SMT-LIB2 for z3 5.1/4.8 and cvc5"}],
 "checks":checks,
 "notes":"Every check reloads /repo's current working tree through go/packages with the harness overlay, re-encodes, and asks the solver; exit 0 held / 1 VIOLATION (replayed natively) / 2 inconclusive.",
 "not_applicable":na}
json.dump(m,open('/verif/MANIFEST.json','w'),indent=1)
print(len(checks),'checks,',len(na),'not applicable')
