#!/bin/bash
# usage: matrix_parallel.sh [jobs]  -- every kept seed against the quick check of its own property, each property in
# its own scratch worktree of /repo HEAD (/tmp/seed4/<prop>, VCHECK_REPO), properties in parallel
jobs=${1:-7}
# the scratch worktrees are created on demand (and must be removed afterwards: git -C /repo worktree remove --force /tmp/seed4/Cxx)
for i in $(seq -w 1 20); do [ -d /tmp/seed4/C$i ] || { mkdir -p /tmp/seed4; git -C /repo worktree add -q --detach /tmp/seed4/C$i HEAD; }; done
run_prop() {
  p=$1
  for d in /verif/seeded/${p}?; do
    s=$(basename $d)
    st=$(python3 -c "import json;print(json.load(open('$d/meta.json')).get('status','kept'))" 2>/dev/null)
    case "$st" in kept*|"") ;; *) echo "$s SKIP ($st)" | cut -c1-80; continue;; esac
    /verif/tools/seed4_test.sh $s 2>&1 | grep -E " vs |PATCH-FAILS" | cut -c1-230
  done
}
export -f run_prop
for i in $(seq -w 1 20); do echo C$i; done | xargs -P $jobs -I{} bash -c 'run_prop {}'
