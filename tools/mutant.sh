#!/bin/bash
# usage: tools/mutant.sh <patch.diff> <prop> [<prop>...] : apply patch to /repo, run quick checks, revert
patch=$1; shift
cd /repo && git apply "$patch" || { echo "patch does not apply"; exit 3; }
for p in "$@"; do
  /verif/bin/vcheck $p --tier quick --no-evidence 2>&1 | grep -E "VIOLATION|KNOWN|INCONCLUSIVE|^  " | head -${LINES_MAX:-12}
  echo "[$p exit=${PIPESTATUS[0]}]"
done
cd /repo && git checkout -- . && git status --short | head
