#!/bin/bash
# usage: tools/mutant.sh <patch.diff> <prop> [<prop>...] : apply patch to /repo, run quick checks, revert
patch=$(realpath "$1"); shift
cd /repo && { git apply "$patch" 2>/dev/null || git apply -3 "$patch" 2>/dev/null; } || { echo "patch does not apply"; git reset -q --hard HEAD; exit 3; }
git diff HEAD --stat | tail -1
for p in "$@"; do
  /verif/bin/vcheck $p --tier quick --no-evidence --no-replay 2>&1 | grep -E "VIOLATION|KNOWN|INCONCLUSIVE|^  " | cut -c1-400 | head -${LINES_MAX:-12}
  echo "[$p exit=${PIPESTATUS[0]}]"
done
cd /repo && git reset -q --hard HEAD && git status --short | head
