#!/bin/bash
# usage: rebase_seed.sh <seedid> -- re-apply a stored seed on /repo HEAD (3-way), re-confirm it (suite passes with the
# change, demo fails with it and passes without) and store the rebased patch
export GOFLAGS=-mod=mod GOPROXY=off GOSUMDB=off GOTOOLCHAIN=local
id=$1; d=/verif/seeded/$id; wt=/tmp/rb_$id
rm -rf $wt; git -C /repo worktree add -q --detach $wt HEAD || exit 3
cd $wt
if ! git apply -3 $d/patch.diff 2>/tmp/rb_$id.err; then echo "$id CONFLICT"; git -C /repo worktree remove --force $wt; exit 4; fi
if git diff --name-only --diff-filter=U | grep -q .; then echo "$id CONFLICT(unmerged)"; git -C /repo worktree remove --force $wt; exit 4; fi
git diff HEAD > /tmp/rb_$id.diff
demo=$(ls $d/zz_demo_test.go 2>/dev/null)
pkgline=$(grep -m1 '^package ' $demo | awk '{print $2}')
dir=.; case "$pkgline" in decor*) dir=decor;; cwriter*) dir=cwriter;; internal*) dir=internal;; esac
race=$(python3 -c "import json;print(json.load(open('$d/meta.json')).get('race_flag','') or '')" 2>/dev/null); [ "$race" = "True" ] && race=-race; [ "$race" = "False" ] && race=""
suite=$(go build ./... 2>&1 && timeout 900 go test -vet=off -count=1 ./... 2>&1 | grep -E "^(ok|FAIL|---)" | tr '\n' ' ')
cp $demo $dir/zz_demo_test.go
mut=$(timeout 600 go test $race -vet=off -count=1 -timeout 300s -run 'Demo|ZZ|TestC[0-9][0-9]' ./$dir 2>&1 | grep -E "^(--- FAIL|FAIL|ok|panic|WARNING: DATA RACE)" | head -3 | tr '\n' ' ')
git reset -q --hard HEAD; cp $demo $dir/zz_demo_test.go
clean=$(timeout 600 go test $race -vet=off -count=2 -timeout 300s -run 'Demo|ZZ|TestC[0-9][0-9]' ./$dir 2>&1 | tail -n 2 | tr '\n' ' ')
cd /; git -C /repo worktree remove --force $wt
ok=1
echo "$suite" | grep -q FAIL && ok=0
echo "$mut" | grep -qE "FAIL|panic|DATA RACE" || ok=0
echo "$clean" | grep -q "^ok\|ok " || ok=0
if [ $ok = 1 ]; then cp /tmp/rb_$id.diff $d/patch.diff; python3 - "$d/meta.json" <<'PY'
import json,sys
m=json.load(open(sys.argv[1])); m['rebased_on']='99be902 (after the C15 fix)'; json.dump(m,open(sys.argv[1],'w'),indent=1)
PY
fi
echo "$id ok=$ok | suite: $suite | mut: $mut | clean: $clean"
