#!/usr/bin/env python3
"""registry helper:  reg.py clone <prop> <name> <prop2,prop3>   |  reg.py add '<json>'  |  reg.py ls [prop]"""
import json,sys,copy
P='/verif/harness/registry.json'
r=json.load(open(P))
cmd=sys.argv[1]
if cmd=='clone':
    src=[x for x in r if x['property']==sys.argv[2] and x['name']==sys.argv[3]]
    assert src, 'no such entry'
    extra=json.loads(sys.argv[5]) if len(sys.argv)>5 else {}
    for p2 in sys.argv[4].split(','):
        if any(x['property']==p2 and x['name']==sys.argv[3] for x in r):
            print('exists',p2); continue
        e=copy.deepcopy(src[0]); e['property']=p2; e.update(extra); r.append(e); print('added',p2,e['name'])
elif cmd=='add':
    e=json.loads(sys.argv[2])
    r=[x for x in r if not (x['property']==e['property'] and x['name']==e['name'])]
    r.append(e); print('added',e['property'],e['name'])
elif cmd=='set':  # reg.py set <prop|*> <name> '<json>'
    upd=json.loads(sys.argv[4]); n=0
    for x in r:
        if (sys.argv[2]=='*' or x['property']==sys.argv[2]) and x['name']==sys.argv[3]:
            x.update(upd); n+=1
    print('updated',n)
elif cmd=='ls':
    for x in r:
        if len(sys.argv)<3 or x['property']==sys.argv[2]:
            print(x['property'],x['name'],x['func'],x.get('expand',''),x.get('classes',''),x.get('assert_ids',''))
    sys.exit(0)
json.dump(r,open(P,'w'),indent=1)
