#!/bin/bash
# run every property's check at the given tier (default quick), 4 at a time; summary to stdout
tier=${1:-quick}
mkdir -p /tmp/runall
ids=$(python3 -c "
import json
print(' '.join(sorted({r['property'] for r in json.load(open('/verif/harness/registry.json'))})))")
run1() { s=$(date +%s); /verif/bin/vcheck $1 --tier $2 > /tmp/runall/$1.$2.log 2>&1; e=$?; echo "$1 exit=$e $(( $(date +%s)-s ))s $(grep -c KNOWN-FINDING /tmp/runall/$1.$2.log) known"; }
export -f run1
echo $ids | tr ' ' '\n' | xargs -P 4 -I{} bash -c "run1 {} $tier"
