#!/bin/bash
# run every property's thorough check, 3 at a time; summary to stdout
mkdir -p /tmp/runall
ids=$(python3 -c "
import json
print(' '.join(sorted({r['property'] for r in json.load(open('/verif/harness/registry.json'))})))")
run1() { s=$(date +%s); /verif/bin/vcheck $1 --tier thorough -j 5 > /tmp/runall/$1.thorough.log 2>&1; e=$?; echo "$1 exit=$e $(( $(date +%s)-s ))s $(grep -c KNOWN-FINDING /tmp/runall/$1.thorough.log) known $(grep -c '|win' /tmp/runall/$1.thorough.log) windows"; }
export -f run1
echo $ids | tr ' ' '\n' | xargs -P 3 -I{} bash -c "run1 {}"
