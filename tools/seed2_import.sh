#!/bin/bash
# usage: seed2_import.sh <Cxx> <a|b> <newid>  -- confirm a round-2 seed in its worktree (demo passes without, fails with,
# suite passes with) and store it under /verif/seeded/<newid>
export GOFLAGS=-mod=mod GOPROXY=off GOSUMDB=off GOTOOLCHAIN=local
p=$1; v=$2; id=$3
wt=/tmp/seed2/$p; src=$wt/out/$v
[ -f $src/patch.diff ] || { echo "$id no patch"; exit 3; }
cd $wt; git checkout -q -- .; rm -f zz_demo_test.go decor/zz_demo_test.go cwriter/zz_demo_test.go
pkgline=$(grep -m1 '^package ' $src/zz_demo_test.go | awk '{print $2}')
dir=.; case "$pkgline" in decor*) dir=decor;; cwriter*) dir=cwriter;; internal*) dir=internal;; esac
cp $src/zz_demo_test.go $dir/zz_demo_test.go
tests=$(grep -oE '^func (Test[A-Za-z0-9_]+)' $src/zz_demo_test.go | awk '{print $2}' | paste -sd'|')
race=""; grep -qi "race" $src/NOTES.md 2>/dev/null && grep -qi "\-race" $src/NOTES.md && race="-race"
clean=$(timeout 300 go test $race -count=1 -timeout 120s -run "^($tests)\$" ./$dir 2>&1 | tail -n 3 | tr '\n' ' ')
git apply $src/patch.diff || { echo "$id PATCH-FAILS"; git checkout -q -- .; rm -f $dir/zz_demo_test.go; exit 3; }
mut=$(timeout 300 go test $race -count=1 -timeout 120s -run "^($tests)\$" ./$dir 2>&1 | grep -E "^(--- FAIL|FAIL|ok|panic|WARNING: DATA RACE)" | head -4 | tr '\n' ' ')
rm -f $dir/zz_demo_test.go
suite=$(timeout 900 go test -count=1 . ./cwriter ./decor ./internal 2>&1 | grep -E "^(ok|FAIL|---)" | tr '\n' ' ')
git checkout -q -- .
status=kept
echo "$clean" | grep -q "^ok\|ok " || status="discarded: demo does not pass on the unchanged tree"
echo "$mut" | grep -qE "FAIL|panic|DATA RACE" || status="discarded: demo does not fail with the change"
echo "$suite" | grep -q FAIL && status="discarded: suite fails with the change"
mkdir -p /verif/seeded/$id
cp $src/patch.diff $src/zz_demo_test.go /verif/seeded/$id/; cp $src/NOTES.md /verif/seeded/$id/ 2>/dev/null
python3 - "$id" "$p" "$status" "$clean" "$mut" "$suite" <<'PY'
import json,sys,re
id,p,status,clean,mut,suite=sys.argv[1:7]
notes=open('/verif/seeded/%s/NOTES.md'%id).read() if True else ''
m=re.search(r'(?is)what.{0,40}(needed|needs).{0,200}?\n(.*?)(\n#|\Z)',notes)
need=(m.group(2).strip().replace('\n',' ')[:400] if m else notes.strip().split('\n')[0][:300])
json.dump({"property":p,"round":2,"status":status,"needs_to_manifest":need,
 "what_i_ran":{"demo_on_unchanged_tree":clean.strip(),"demo_with_change":mut.strip(),"suite_with_change":suite.strip()}},open('/verif/seeded/%s/meta.json'%id,'w'),indent=1)
PY
echo "$id $status | clean: $clean | mut: $mut"
