#!/bin/bash
# usage: seed2_test.sh <Cxx> <a|b> [prop ...]  -- apply round-2 seed in its own worktree and run quick checks there
p=$1; v=$2; shift 2
props="$@"; [ -z "$props" ] && props=$p
wt=/tmp/seed2/$p
git -C $wt checkout -q -- . 2>/dev/null
git -C $wt apply $wt/out/$v/patch.diff || { echo "$p$v PATCH-FAILS"; exit 3; }
for q in $props; do
  out=$(VCHECK_REPO=$wt timeout 1500 /verif/bin/vcheck $q --tier quick --no-evidence --no-replay 2>&1)
  code=$?
  first=$(echo "$out" | grep -m1 -E "^  [A-Za-z0-9].*\[(assert|panic|unwind|deadlock|leak|wrap|race)\]" | cut -c1-200)
  [ -z "$first" ] && first=$(echo "$out" | grep -m1 -E "INCONCLUSIVE" | cut -c1-200)
  echo "$p$v vs $q exit=$code $first"
done
git -C $wt checkout -q -- .
