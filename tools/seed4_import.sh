#!/bin/bash
# usage: seed3_import.sh <Cxx> <a|b> <newid>  -- confirm a round-3 seed in its worktree (demo passes without, fails with,
# suite passes with) and store it under /verif/seeded/<newid>
export GOFLAGS=-mod=mod GOPROXY=off GOSUMDB=off GOTOOLCHAIN=local
p=$1; v=$2; id=$3
wt=/tmp/seed4/$p; src=/tmp/seed4/_out/$p/$v
# the results live inside the module (out/): move them outside so that ./... does not see them
if [ -d $wt/out ]; then mkdir -p /tmp/seed4/_out/$p; cp -r $wt/out/* /tmp/seed4/_out/$p/; rm -rf $wt/out; fi
[ -f $src/patch.diff ] || { echo "$id no patch"; exit 3; }
cd $wt; git checkout -q -- .; git clean -qfd; 
pkgline=$(grep -m1 '^package ' $src/zz_demo_test.go | awk '{print $2}')
dir=.; case "$pkgline" in decor*) dir=decor;; cwriter*) dir=cwriter;; internal*) dir=internal;; esac
cp $src/zz_demo_test.go $dir/zz_demo_test.go
tests=$(grep -oE '^func (Test[A-Za-z0-9_]+)' $src/zz_demo_test.go | awk '{print $2}' | paste -sd'|')
race=""; grep -qiE "only.{0,40}-race|-race only|under .?go test -race|needs -race" $src/NOTES.md 2>/dev/null && race="-race"
[ -n "$4" ] && race="$4"
clean=$(timeout 600 go test $race -vet=off -count=2 -timeout 300s -run "^($tests)\$" ./$dir 2>&1 | tail -n 3 | tr '\n' ' ')
git apply $src/patch.diff || { echo "$id PATCH-FAILS"; git checkout -q -- .; rm -f $dir/zz_demo_test.go; exit 3; }
mut=$(timeout 600 go test $race -vet=off -count=1 -timeout 300s -run "^($tests)\$" ./$dir 2>&1 | grep -E "^(--- FAIL|FAIL|ok|panic|WARNING: DATA RACE)" | head -4 | tr '\n' ' ')
rm -f $dir/zz_demo_test.go
suite=$(timeout 900 go test -vet=off -count=1 . ./cwriter ./decor ./internal 2>&1 | grep -E "^(ok|FAIL|---)" | tr '\n' ' ')
git checkout -q -- .
status=kept
echo "$clean" | grep -q "^ok\|ok " || status="discarded: demo does not pass on the unchanged tree"
echo "$mut" | grep -qE "FAIL|panic|DATA RACE" || status="discarded: demo does not fail with the change"
echo "$suite" | grep -q FAIL && status="discarded: suite fails with the change"
mkdir -p /verif/seeded/$id
cp $src/patch.diff $src/zz_demo_test.go /verif/seeded/$id/; cp $src/NOTES.md /verif/seeded/$id/ 2>/dev/null
python3 - "$id" "$p" "$status" "$clean" "$mut" "$suite" "$race" <<'PY'
import json,sys,re
id,p,status,clean,mut,suite,race=sys.argv[1:8]
notes=open('/verif/seeded/%s/NOTES.md'%id).read()
m=re.search(r'(?is)(needs|need to manifest|in order to manifest|trigger).{0,80}?\n(.*?)(\n#|\n\n\*\*|\Z)',notes)
need=(m.group(2).strip().replace('\n',' ')[:500] if m else notes.strip().split('\n')[0][:300])
json.dump({"property":p,"round":4,"status":status,"needs_to_manifest":need,"race_flag":race,
 "what_i_ran":{"demo_on_unchanged_tree":clean.strip(),"demo_with_change":mut.strip(),"suite_with_change":suite.strip()}},open('/verif/seeded/%s/meta.json'%id,'w'),indent=1)
PY
echo "$id $status | clean: $clean | mut: $mut | suite: $suite"
