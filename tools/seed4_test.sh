#!/bin/bash
# usage: seed3_test.sh <seedid> [prop ...]  -- apply a stored seed in the scratch worktree of its property and run quick checks there
id=$1; shift
p=${id:0:3}
props="$@"; [ -z "$props" ] && props=$p
wt=/tmp/seed4/$p
git -C $wt checkout -q -- . 2>/dev/null
git -C $wt apply /verif/seeded/$id/patch.diff || { echo "$id PATCH-FAILS"; exit 3; }
for q in $props; do
  out=$(VCHECK_REPO=$wt timeout 1800 /verif/bin/vcheck $q --tier quick --no-evidence 2>&1)
  code=$?
  first=$(echo "$out" | grep -m1 -E "^  [A-Za-z0-9].*\[(assert|panic|unwind|deadlock|leak|wrap|race)\]" | cut -c1-220)
  [ -z "$first" ] && first=$(echo "$out" | grep -m1 -E "INCONCLUSIVE" | cut -c1-300)
  echo "$id vs $q exit=$code $first"
  echo "$out" > /tmp/seed4/_log_${id}_$q.txt
done
git -C $wt checkout -q -- .
