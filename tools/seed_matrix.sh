#!/bin/bash
# usage: seed_matrix.sh [seed ...]  -- apply each kept seed to /repo, run the quick check of its property, undo
cd /verif
seeds="$@"
[ -z "$seeds" ] && seeds=$(ls seeded)
for s in $seeds; do
  st=$(python3 -c "import json;print(json.load(open('seeded/$s/meta.json')).get('status',''))")
  [ "$st" != "kept" ] && { echo "$s SKIP ($st)"; continue; }
  p=${s:0:3}
  ( cd /repo && git apply /verif/seeded/$s/patch.diff ) || { echo "$s PATCH-FAILS"; (cd /repo && git reset -q --hard HEAD); continue; }
  out=$(timeout 1500 bin/vcheck $p --tier quick --no-evidence --no-replay 2>&1)
  code=$?
  (cd /repo && git reset -q --hard HEAD)
  first=$(echo "$out" | grep -m1 -E "^  [A-Za-z0-9].*\[(assert|panic|unwind|deadlock|leak|wrap|race)\]" | cut -c1-160)
  echo "$s exit=$code $first"
done
