#!/bin/bash
# usage: seed_matrix_all.sh [jobs]  -- every kept seed against the quick check of its own property, in scratch worktrees
# of /repo HEAD (one per property, seeds of one property run one after the other); output: one line per seed
J=${1:-6}
head=$(git -C /repo rev-parse HEAD)
mkdir -p /tmp/seedm
props=$(ls /verif/seeded | grep -E '^C[0-9]{2}[a-z]$' | cut -c1-3 | sort -u)
run_prop() {
  p=$1; head=$2
  wt=/tmp/seedm/$p
  [ -d $wt ] || git -C /repo worktree add -q --detach $wt $head
  git -C $wt checkout -q --detach $head 2>/dev/null; git -C $wt checkout -q -- .; git -C $wt clean -qfd
  for d in /verif/seeded/$p?; do
    id=$(basename $d)
    st=$(python3 -c "import json;print(json.load(open('$d/meta.json')).get('status','kept'))" 2>/dev/null)
    case "$st" in kept|"") ;; *) echo "$id SKIP ($st)"; continue;; esac
    git -C $wt apply $d/patch.diff 2>/dev/null || git -C $wt apply -3 $d/patch.diff 2>/dev/null || { echo "$id PATCH-FAILS"; git -C $wt checkout -q -- .; git -C $wt reset -q --hard $head; continue; }
    out=$(VCHECK_REPO=$wt timeout 1800 /verif/bin/vcheck $p --tier quick --no-evidence 2>&1); code=$?
    first=$(echo "$out" | grep -m1 -E "^  [A-Za-z0-9].*\[(assert|panic|unwind|deadlock|leak|wrap|race)\]" | cut -c1-150)
    [ -z "$first" ] && first=$(echo "$out" | grep -m1 -E "INCONCLUSIVE" | cut -c1-200)
    echo "$id exit=$code $first"
    git -C $wt reset -q --hard $head; git -C $wt clean -qfd
  done
}
export -f run_prop
echo $props | tr ' ' '\n' | xargs -P $J -I{} bash -c "run_prop {} $head" | sort
