#!/bin/bash
# usage: seed_only.sh <seedid> <prop> <only-substring> [more vcheck flags] -- run selected harnesses of a property against a seed in its worktree
id=$1; q=$2; only=$3; shift 3
p=${id:0:3}; wt=/tmp/seed3/$p
[ -d $wt ] || git -C /repo worktree add -q --detach $wt HEAD
git -C $wt checkout -q -- . 2>/dev/null
git -C $wt apply /verif/seeded/$id/patch.diff || { echo "$id PATCH-FAILS"; exit 3; }
VCHECK_REPO=$wt timeout 1800 /verif/bin/vcheck $q --tier quick --no-evidence --only "$only" "$@" 2>&1 | grep -E "^  [A-Za-z0-9].*\[|VIOLATION|INCONCLUSIVE|REDUCED|KNOWN" | cut -c1-260 | head -8
echo "$id vs $q/$only exit=${PIPESTATUS[0]}"
git -C $wt checkout -q -- .
