#!/bin/bash
# run every thorough check from this checkout (its own binary and harness copy), N at a time, without touching
# /verif/evidence: a development aid for `vp run` (the registered commands are the ones in MANIFEST.json)
here=$(cd $(dirname $0)/.. && pwd)
export GOFLAGS=-mod=mod GOPROXY=off GOSUMDB=off GOTOOLCHAIN=local
( cd $here/engine && go build -o $here/bin/vcheck ./cmd/vcheck ) || exit 3
export VCHECK_HARNESS=$here/harness
mkdir -p $here/logs
ids=$(python3 -c "
import json
print(' '.join(sorted({r['property'] for r in json.load(open('$here/harness/registry.json'))})))")
run1() { s=$(date +%s); $2/bin/vcheck $1 --tier thorough -j 5 --no-evidence > $2/logs/$1.thorough.log 2>&1; e=$?; echo "$1 exit=$e $(( $(date +%s)-s ))s known=$(grep -c KNOWN-FINDING $2/logs/$1.thorough.log) windows=$(grep -c '|win' $2/logs/$1.thorough.log) unconfirmed=$(grep -c UNCONFIRMED $2/logs/$1.thorough.log)"; grep -E "VIOLATION|^INCONCLUSIVE" $2/logs/$1.thorough.log | cut -c1-300 | head -5; }
export -f run1
echo $ids | tr ' ' '\n' | xargs -P ${JOBS:-3} -I{} bash -c "run1 {} $here"
