#!/bin/bash
# usage: verify_seed.sh <PROP> <variant> [race]  -- confirm a seeded change in a scratch worktree of /repo HEAD
# writes /verif/seeded/<PROP><variant>/{patch.diff,demo,meta.json}
export GOFLAGS=-mod=mod GOPROXY=off GOSUMDB=off GOTOOLCHAIN=local
P=$1; V=$2; RACE=$3
SRC=/tmp/seed/$P/out/$V
OUT=/verif/seeded/$P$V
WT=/tmp/vs_$P$V
mkdir -p $OUT
[ -f $OUT/patch.diff ] || cp $SRC/patch.diff $OUT/patch.diff
DEMO=$(ls $SRC/zz_demo_test.go 2>/dev/null)
cp $DEMO $OUT/zz_demo_test.go
cp $SRC/NOTES.md $OUT/NOTES.md 2>/dev/null
rm -rf $WT; git -C /repo worktree add -q --detach $WT HEAD || exit 3
cd $WT
pkg=$(grep -m1 '^package ' $OUT/zz_demo_test.go | awk '{print $2}')
dir=.
case $pkg in decor*) dir=decor;; internal*) dir=internal;; cwriter*) dir=cwriter;; esac
applied=ok
git apply $OUT/patch.diff 2>/dev/null || git apply -3 $OUT/patch.diff 2>/dev/null || applied=CONFLICT
if [ $applied = CONFLICT ]; then git reset -q --hard HEAD; fi
suite=skip; with=skip; without=skip
if [ $applied = ok ]; then
  git diff HEAD > $OUT/patch.diff   # rebased onto the current tree
  if go build ./... >/dev/null 2>&1 && go test -vet=off -count=1 ./... >/tmp/vs_suite_$P$V.log 2>&1; then suite=pass; else suite=FAIL; fi
  cp $OUT/zz_demo_test.go $dir/zz_demo_test.go
  flags="-vet=off -count=1"; [ -n "$RACE" ] && flags="$flags -race"
  if timeout 600 go test $flags -run 'Demo|ZZ' ./$dir >/tmp/vs_with_$P$V.log 2>&1; then with=PASS; else with=fail; fi
  git apply -R $OUT/patch.diff 2>/dev/null || { git checkout -q -- . ; cp $OUT/zz_demo_test.go $dir/zz_demo_test.go; }
  if timeout 600 go test $flags -run 'Demo|ZZ' ./$dir >/tmp/vs_without_$P$V.log 2>&1; then without=pass; else without=FAIL; fi
fi
cd /; git -C /repo worktree remove --force $WT
echo "$P$V applied=$applied suite=$suite demo_with_change=$with demo_without_change=$without"
python3 - <<PY
import json
json.dump({"seed":"$P$V","breaks_property":"$P","origin":"independent sub-agent given only the property text and a scratch worktree","applied_on":"/repo HEAD (with the fix: commits)","patch_applies":"$applied","existing_suite_with_change":"$suite","demo_with_change":"$with","demo_without_change":"$without","race_flag":bool("$RACE"),"commands":"tools/verify_seed.sh $P $V $RACE (scratch worktree, go test -vet=off -count=1 ./... ; go test -run 'Demo|ZZ')"},open("$OUT/meta.json","w"),indent=1)
PY
